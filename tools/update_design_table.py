#!/usr/bin/env python3
"""Splices the output of tools/seeded_table.py between the seeded-table markers of DESIGN.md."""
import os, subprocess
V = os.path.join(os.path.dirname(os.path.abspath(__file__)), "..")
t = subprocess.run(["python3", os.path.join(V, "tools", "seeded_table.py")], capture_output=True, text=True).stdout.rstrip("\n")
p = os.path.join(V, "DESIGN.md")
s = open(p).read()
B, E = "<!-- seeded-table:begin -->", "<!-- seeded-table:end -->"
a = s.index(B) + len(B); b = s.index(E)
open(p, "w").write(s[:a] + "\n" + t + "\n" + s[b:])
print("table rows:", t.count("\n") - 1)
