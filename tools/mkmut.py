#!/usr/bin/env python3
"""tools/mkmut.py <out.diff> (<file> <old> <new>)...   — builds a patch from exact string replacements
(each once; escapes like \\n \\t are interpreted) in a throw-away worktree of /repo; /repo is not touched."""
import sys, subprocess, tempfile, shutil, os
out = os.path.abspath(sys.argv[1]); triples = sys.argv[2:]
assert len(triples) % 3 == 0 and triples
wt = tempfile.mkdtemp(prefix="xjs-mk.", dir="/tmp")
subprocess.check_call(["git", "-C", "/repo", "worktree", "add", "-q", "--detach", wt, "HEAD"])
try:
    for i in range(0, len(triples), 3):
        f, old, new = triples[i:i+3]
        old = old.encode().decode('unicode_escape'); new = new.encode().decode('unicode_escape')
        p = os.path.join(wt, f); s = open(p).read()
        assert s.count(old) >= 1, "pattern not found in %s: %r" % (f, old)
        open(p, 'w').write(s.replace(old, new, 1))
    env = dict(os.environ, GOFLAGS="-mod=mod", GOPROXY="off", GOSUMDB="off", GOTOOLCHAIN="local")
    r = subprocess.run(["go", "build", "./..."], cwd=wt, env=env, capture_output=True, text=True)
    if r.returncode != 0:
        print("DOES NOT COMPILE:\n" + r.stderr); sys.exit(1)
    r = subprocess.run(["go", "test", "-vet=off", "-count=1", "./..."], cwd=wt, env=env, capture_output=True, text=True, timeout=300)
    print("tests:", "PASS" if r.returncode == 0 else "FAIL\n" + r.stdout[-1500:])
    d = subprocess.check_output(["git", "-C", wt, "diff"], text=True)
    open(out, 'w').write(d)
    print("wrote", out, len(d.splitlines()), "lines")
finally:
    subprocess.call(["git", "-C", "/repo", "worktree", "remove", "--force", wt])
    shutil.rmtree(wt, ignore_errors=True)
