#!/bin/bash
# tools/mkpatch.sh <out.diff> <file> <python-expr-old> <python-expr-new>   (exact string replace, once)
set -e
OUT="$1"; F="$2"
python3 - "$F" "$3" "$4" <<'PY'
import sys
f,old,new=sys.argv[1],sys.argv[2],sys.argv[3]
old=old.encode().decode('unicode_escape'); new=new.encode().decode('unicode_escape')
s=open('/repo/'+f).read()
assert s.count(old)>=1, "pattern not found"
s=s.replace(old,new,1)
open('/repo/'+f,'w').write(s)
PY
git -C /repo diff > "$OUT"
git -C /repo checkout -- .
echo "wrote $OUT ($(wc -l < $OUT) lines)"
