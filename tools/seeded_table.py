#!/usr/bin/env python3
"""Prints the markdown detection table for DESIGN.md from seeded/*/meta.json."""
import json, os, re, sys
V = os.path.join(os.path.dirname(os.path.abspath(__file__)), "..")
rows = []
for sid in sorted(os.listdir(os.path.join(V, "seeded"))):
    mp = os.path.join(V, "seeded", sid, "meta.json")
    if not os.path.exists(mp): continue
    m = json.load(open(mp))
    what = m.get("summary") or ""
    if not what:
        np_ = os.path.join(V, "seeded", sid, "notes.md")
        if os.path.exists(np_):
            for l in open(np_):
                l = l.strip()
                if l.startswith("#"):
                    what = re.sub(r"^#+\s*", "", l); break
    det = m.get("detection", {})
    cells = []
    for k in sorted(det):
        d = det[k]
        kinds = sorted(set(v.split(" ")[0] for v in d.get("violations", [])))
        cells.append("%s: %s%s" % (k, "caught" if d["detected"] else "MISSED", (" (" + ", ".join(kinds[:4]) + ")") if kinds else ""))
    rows.append("| %s | %s | %s | %s |" % (sid, m["property"], what.replace("|", "/")[:150], "; ".join(cells)))
print("| id | property | change (from its notes.md) | outcome per check |\n|---|---|---|---|")
print("\n".join(rows))
