#!/bin/bash
# tools/selftest.sh [runs]  — determinism self-test: every engine, the same runs executed in fresh
# processes at GOMAXPROCS 1, 4 and 16 (twice at 4) must give identical counters, step counts and
# fingerprint sets. Exit 0 = deterministic, 1 = divergence (the checks must not be trusted).
set -u
VERIF="$(cd "$(dirname "$0")/.." && pwd)"
RUNS="${1:-300}"
"$VERIF/bin/check" setup >/dev/null || exit 2
BIN="$VERIF/.build/verifsim"
W="$VERIF/.build/selftest.$$"; mkdir -p "$W"; trap 'rm -rf "$W"' EXIT
rc=0
for spec in C04:plugsim C05:regsim C09:mapsim C11:faultsim C12:faultsim C14:worldsim C16:plugsim; do
  prop=${spec%%:*}; eng=${spec##*:}
  n=$RUNS; [ "$prop" = C16 ] && n=$((RUNS/10+5)); [ "$prop" = C12 ] && n=$((RUNS/5+5)); [ "$prop" = C11 ] && n=$((RUNS/5+5))
  i=0
  for gmp in 1 4 4 16; do
    i=$((i+1))
    GOMAXPROCS=$gmp VERIF_SEED=7 "$BIN" worker -prop $prop -engine $eng -tier quick -seed 7 -w 0 -W 1 -runs $n -deadline 0 -budget-ms 60000 -shrink-s 0 -out "$W/$prop.$i.json" -verif "$VERIF" 2>"$W/$prop.$i.err"
    python3 - "$W/$prop.$i.json" > "$W/$prop.$i.digest" <<'PY'
import json,sys,hashlib
s=json.load(open(sys.argv[1]))
fp=open(s['fp_file'],'rb').read() if s.get('fp_file') else b''
fps=sorted(fp[i:i+8] for i in range(0,len(fp),8))
print(json.dumps({'runs':s['runs'],'evals':s['evals'],'steps':s['steps'],'nontrivial':s['nontrivial'],'counters':s['counters'],
  'sigs':s['sig_counts'],'fps':hashlib.sha256(b''.join(fps)).hexdigest()},sort_keys=True))
PY
  done
  if cmp -s "$W/$prop.1.digest" "$W/$prop.2.digest" && cmp -s "$W/$prop.2.digest" "$W/$prop.3.digest" && cmp -s "$W/$prop.3.digest" "$W/$prop.4.digest"; then
    echo "selftest $prop ($eng): $n runs x 4 processes (GOMAXPROCS 1,4,4,16) identical"
  else
    echo "selftest $prop ($eng): DIVERGENCE"; rc=1
    diff <(python3 -m json.tool "$W/$prop.1.digest") <(python3 -m json.tool "$W/$prop.4.digest") | head -20
  fi
done
exit $rc
