#!/usr/bin/env python3
# mkwave.py <wave-letter> <style-key> [props...]  — creates /tmp/agents/<P><w>.prompt.md, worktree /tmp/agents/<P><w>.wt, out dir /tmp/agents/<P><w>.out
import json,sys,os,subprocess
w=sys.argv[1]; style=sys.argv[2]; props=sys.argv[3:] or ['C04','C05','C09','C11','C12','C14','C16']
STYLES={
'perf': "This round, write the changes a maintainer would make while *optimising*: caches, memoisation, object or buffer reuse/pooling, fast paths for the common case, lazy initialisation, hoisting work out of loops, sharing read-mostly tables. Each must look like a sensible optimisation in review.",
'refactor': "This round, write the changes a maintainer would make while *refactoring*: extracting helpers, merging near-duplicate functions, replacing hand-written loops by library calls, reordering statements 'harmlessly', changing a field's owner (parser -> builder, compiler -> package), replacing a deferred call by an explicit one, changing value/pointer semantics, generalising a special case. Each must look like a sensible clean-up in review.",
'feature': "This round, write the changes a maintainer would make while *adding a small feature or hardening*: a new option with a default, extra validation, friendlier error recovery, support for one more syntax form, a convenience API, defensive nil/bounds guards, normalising input. The new feature itself may be fine; the defect is its side effect on the property. Each must look like a sensible improvement in review.",
'boundary': "This round, focus on *boundaries and rare paths*: off-by-one at the first/last element, the empty case, the second use of an object, the largest/smallest value, the error path taken after a successful step, deep nesting, the interaction of two options, state left behind by a failed operation, the difference between the 1st and the n-th call. Each must be a one- to ten-line change that reads as plausible in review.",
}
P={}
for l in open('/verif/properties.jsonl'):
    d=json.loads(l); P[d['id']]=d
for p in props:
    d=P[p]; base=f"/tmp/agents/{p}{w}"
    subprocess.run(['git','-C','/repo','worktree','add','-q','--detach',base+'.wt','HEAD'],check=True)
    os.makedirs(base+'.out',exist_ok=True)
    txt=f"""# Task: seed realistic defects into a Go library (mutation-style robustness study)

You are helping evaluate a verification effort. The library is xjslang/xjs: a small extensible Pratt parser and
transpiler for a JavaScript subset written in Go (packages token, lexer, parser, ast, compiler, sourcemap, debug).
Your own scratch git worktree of it is at `{base}.wt` — work ONLY there (never touch /repo or /verif; do not read /verif).

## The property you must break

Title: {d['title']}

Statement: {d['statement']}

Quantifier: {d['quantifier']['text']}

Why the existing tests cannot settle it: {d['why_tests_cant']}

Code it is anchored in: {', '.join(d['anchors']['files'])}; mechanisms: {'; '.join(m['name']+' ('+m['where']+')' for m in d['anchors']['mechanism'])}.

## What to deliver

SIX different changes to the library (non-test .go files), each of which
1. compiles (`go build ./...`),
2. keeps the ENTIRE existing test suite passing, unedited (`go test -vet=off -count=1 ./...` in the worktree — all packages ok),
3. breaks the property above — a user relying on the property would get a wrong result — and
4. needs something SPECIFIC to manifest: a particular interleaving or order of API calls, a second use of a builder/parser/compiler,
   a multi-step sequence of operations, an unusual (but legal) input or option combination, a particular nesting depth, an error path,
   or two cooperating sites that each look fine alone. NOT something that ordinary single use on an ordinary input would expose at once.

{STYLES[style]}

Make the six genuinely different from one another (different mechanism, different file or function where possible), and be
inventive: think about which parts of the property's statement are the least likely to be watched. Subtle beats blatant.
Do not add build tags, do not change test files, do not change exported signatures that existing callers use, keep each change small
(ideally under 25 changed lines).

For each change k = 1..6 create the directory `{base}.out/<k>/` containing exactly:
* `patch.diff` — `git diff` of the worktree against HEAD with ONLY that change applied (apply cleanly with `git apply` on a clean checkout);
* `demo_test.go` — ONE Go test file (external test package of one of the repo's packages, e.g. `package parser_test` or
  `package integration_test`, using only the public API and the standard library) whose test(s) PASS on the unchanged tree and FAIL with the change;
  name its test functions `TestDemo...`; say in notes.md which directory it belongs in (e.g. `parser/zz_demo_test.go` or `test/integration/zz_demo_test.go`);
* `notes.md` — first line a title of the form `# <k> - <one-line description> (<file>, <function>)`, then: what was changed, which clause of the
  property it breaks, and exactly what is needed for it to manifest.

## Procedure (per change)

```
export GOFLAGS=-mod=mod GOPROXY=off GOSUMDB=off GOTOOLCHAIN=local     # in EVERY shell call; the sandbox has no network
cd {base}.wt
git checkout -- . && git clean -fdq          # start from the clean tree
# write demo_test.go into its package dir; run it: must PASS on the clean tree
timeout 120 go test -vet=off -count=1 -run 'TestDemo' ./<pkg>/
# make the change; then
go build ./... && timeout 600 go test -vet=off -count=1 ./...       # everything must be ok, EXCEPT your demo, so run this with the demo file moved away
timeout 120 go test -vet=off -count=1 -run 'TestDemo' ./<pkg>/        # must FAIL now
git diff > {base}.out/<k>/patch.diff         # with the demo file NOT in the diff (it is untracked; `git diff` ignores untracked files)
```
Always wrap test runs in `timeout` (a change may make the parser loop forever). Verify each of the four requirements yourself before moving on;
drop an idea that turns out to fail an existing test and think of another. When all six are done, leave the worktree clean
(`git checkout -- . && git clean -fdq`) and reply with a six-line summary (one line per change). Do not write anything outside
`{base}.wt` and `{base}.out`.
"""
    if os.environ.get('AVOID'):
        # AVOID=<letters>: append the one-line titles of earlier rounds' changes (the agents' own notes.md, nothing about
        # the checks) as ideas not to be repeated - by far the most productive prompt variant (wave r: 21 of 41 missed at first)
        import re, glob
        titles=[]
        for dd in sorted(glob.glob('/verif/seeded/%s-[%s]*' % (p, os.environ['AVOID']))):
            n=os.path.join(dd,'notes.md')
            if os.path.exists(n):
                t=open(n).readline().strip().lstrip('# ').strip()
                titles.append(re.sub(r'^\d+\s*[-\u2014:.]\s*','',t)[:140])
        seen=set(); out=[]
        for t in titles:
            k=re.sub(r'[^a-z]','',t.lower())[:25]
            if k in seen: continue
            seen.add(k); out.append(t)
        txt+="\n## Ideas already used in earlier rounds of this study - do NOT repeat them or close variants\n\n"+"\n".join("* "+t for t in out[-45:])+"\n\nFind mechanisms that are NOT on this list: other functions, other clauses of the property, other kinds of state, rarer combinations of options, inputs and call sequences (other public entry points of the same objects, the order of otherwise independent calls, what a caller may do with a value it was handed, unusual but legal text layouts).\n\nKeep each of your own messages short: work through tool calls.\n"
    open(base+'.prompt.md','w').write(txt)
    print(base+'.prompt.md')
