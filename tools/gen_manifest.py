#!/usr/bin/env python3
"""Generates /verif/MANIFEST.json from the table below (single source of truth for the manifest)."""
import json, sys
CAVEAT = ("Deterministic simulation samples; a clean batch is evidence, not proof. ")
checks = {
 "C09": dict(engine="mapsim", cat="exploration", ref="DESIGN.md §5.4",
   technique="deterministic simulation (reduced form): seeded operation histories on the real SourceMapper vs reference model + independent v3 decoder; tape-minimised replay; exhaustive VLQ integer sweep [-2^20,2^20]",
   text="Seeded search over operation histories (records, named records, column/string/line advances, snapshots at arbitrary points) driven by a simulated client against the real sourcemap.SourceMapper; every snapshot is decoded by an independent Source Map v3 decoder and compared with a reference model of absolute mappings and the first-seen name table. The VLQ codec is additionally enumerated exhaustively over [-2^20,2^20] and sampled to 2^31 through the public API. Exploration is the right level: the encoder is stateful across the whole segment list, so the space is histories, which can only be sampled. Clients: direct calls, a real ast.CodeWriter owning the mapper, one Compiler with a source map compiling several programs. Every verified map (snapshot or compile result) is kept and re-read at the end of the history; advanced strings include U+2028/U+2029/NEL/VT/FF/NUL (columns, not line breaks).",
   note=CAVEAT+"Reduced form of the family: one simulated client, no scheduler, no crash (a SourceMapper has nothing to schedule or crash). Trusted: harness model and decoder (cross-checked against go-sourcemap), columns counted in bytes."),
 "C11": dict(engine="faultsim", cat="fault_enumeration", ref="DESIGN.md §5.6",
   technique="deterministic fault injection: every token deletion / separator removal / truncation offset plus seeded byte corruption of generated programs x 4 parser modes; invariants on the result; watchdog for no-progress; tape-minimised replay",
   text="For each seeded valid program every single-token deletion, separator removal and truncation offset is enumerated, plus seeded byte-level corruptions and random byte strings, under strict/tolerant x smart-semicolon on/off. Invariants: no panic, termination (pull-count bound + process watchdog), error value iff error list non-empty, no nil (incl. typed-nil) statement entries, every error range equals a token range of the input, and error-free trees have all mandatory children and compile under every compiler configuration without panicking. Also: token swap/duplicate/replace/insert mutations, double faults, odd prefixes (BOM, shebang, NUL ...), per-run shared builders after plugin-bearing neighbour parsers, Errors() read before parsing in a third of the runs, second ParseProgram call, earlier parser's errors re-read after a later parse; every error range must additionally lie inside the input (computed from the text alone, independent of the lexer).",
   note=CAVEAT+"Reduced form: fault-injection half of the family only (the stored source text is the faulty medium); exhaustive over fault positions per program, sampled over programs. Token ranges are taken from xjs's own lexer run alone on the same input."),
 "C12": dict(engine="faultsim", cat="fault_enumeration", ref="DESIGN.md §5.5",
   technique="deterministic fault injection: every token deletion / separator removal / truncation offset of generated valid programs; precondition = rejected by BOTH goja and node; oracle = strict-mode error, located no earlier than the last intact token",
   text="For each seeded valid program every single-token deletion, every statement-separator removal and every truncation offset is enumerated; when both reference JavaScript parsers (goja in-process, node vm.Script) reject the corrupted text, strict-mode parsing must report an error whose first range starts no earlier than the last intact token before the corruption point. Exhaustive over fault positions per program, sampled over programs. The strict builder has a seeded mode history, may be switched to tolerant between Build and ParseProgram, may have smart semicolons on where they cannot act; Errors() may be read before parsing; the previous parser's report is judged again after the next parser has run.",
   note=CAVEAT+"Reduced form: fault-injection half of the family only. Trusted: goja and node as reference parsers (a case is demanded only when both reject); generator token offsets (checked against xjs's lexer per program; disagreement discards the program). Known findings listed in known_findings.json are reported as KNOWN-FINDING lines."),
 "C04": dict(engine="plugsim", cat="exploration", ref="DESIGN.md §5.2",
   technique="deterministic simulation of plugin parties: the simulator plays 0..8 token/statement/expression interceptors and decides each invocation's action (pass, observe, re-enter) from the seed; callback history checked for order/exactly-once; result compared with the zero-interceptor run",
   text="The simulator plays all interceptors (installed directly or via Install, seeded counts and order) and decides at every invocation whether the party passes through or re-enters the parser (ParsePrefixExpression + ParseRemainingExpression). Oracles: transparency (tokens, tree dump, errors, compact and pretty output byte-identical to the zero-interceptor run, on valid and corrupted programs), well-nested exactly-once invocation in installation order from the recorded callback history, current token = first token of the construct (generator ground truth), token interceptors once per token with the lexer on the lexeme's first byte, re-entrant path gives the same tree. Further scenarios: 1-3 parsers per builder with parties installed between builds, plugins in four spellings, nested/sibling parsers run inside interceptors, steps requested through public ParseStatement / specific parse functions / ParseExpressionWithPrecedence, operator stand-in (a registered infix operator replaces a built-in one: same steps), operator transparency (registered infix at any level 2..16 plus prefix and postfix operators: k pass-through or re-entering interceptors leave tree, errors, output unchanged), every sub-expression had a step at its first token, token-interceptor count vs Lexer.NextToken calls from the guarded hook, odd input prefixes.",
   note=CAVEAT+"Trusted: the generator's token and statement ground truth (validated per program against xjs's plain lexer; mismatches discard the program). The action schedule space is 2^invocations per program and is sampled."),
 "C16": dict(engine="plugsim", cat="exploration", ref="DESIGN.md §5.7",
   technique="deterministic simulation of observing plugin parties: context queries recorded at every statement/expression interceptor invocation and compared with the generator's nesting ground truth; final-state invariant on valid and fault-injected inputs in all 4 modes",
   text="Observer interceptors record IsInFunction() and CurrentContext() at every invocation together with the ordinal of the current token; ground truth for that token comes from the program generator (enclosing function bodies and blocks). After ParseProgram returns - for valid programs and for every injected corruption, in all four mode combinations - the context must be top level and not in a function. Further: step-balance invariant on every input, bail-out (panic/recover) parties, plugin context brackets with a pushed-context oracle, sparse questioning, plugin sets with only statement or only expression parties, forced deep chains (to 550 contexts; block-only or function-only outer levels), fused statements under tolerant mode, plugin-defined syntax (lambda / unless written with ParseFunctionParameters, ParseExpression, ParseBlockStatement) with its own ground truth, nested and sibling parsers inside interceptors.",
   note=CAVEAT+"Oracle is deliberately permissive for tokens directly inside a function body (FunctionContext or BlockContext accepted; see DESIGN.md §5.7), strict everywhere else. Trusted: generator nesting ground truth."),
 "C05": dict(engine="regsim", cat="exploration", ref="DESIGN.md §5.3",
   technique="deterministic simulation of registering plugins: seeded registration histories (with repeats, refusals as injected faults, builds at arbitrary points) vs a reference registration model; grouping checked by substitution against built-in operators and a declarative grouping model",
   text="Seeded histories of RegisterTokenType / Register{Prefix,Infix,Postfix}Operator (names and tokens repeat, built-in tokens included so refusals occur) interleaved with Build operations are checked operation by operation against a reference model (stable injective ids, role sets seeded with the built-ins, refusal leaves everything unchanged). After each Build probe expressions place every registered operator next to every built-in level on both sides; grouping must equal that of a built-in operator of the same level (substitution oracle) or the declarative model where no built-in binary operator exists at that level. Further: twin builder with refused operations deleted, registrations from inside plugins, builders carrying pass-through / re-entrant expression interceptors and an operand plugin (operand supplied by an expression interceptor), smart-semicolon builders, built-in host scenario (role on a built-in token lacking it), near-variant and keyword-spelled names, out-of-range levels, line breaks before infix operators, parenthesised operands.",
   note=CAVEAT+"Levels and neighbours are covered deterministically first, histories are sampled. Known finding: level 1 (LOWEST) infix operators are accepted but never parsed (known_findings.json)."),
 "C14": dict(engine="worldsim", cat="exploration", ref="DESIGN.md §5.1",
   technique="deterministic simulation: seeded cooperative scheduler interleaves up to 16 caller tasks (real goroutines released one at a time at plugin-callback yield points); oracle = every job's result equals its solo run in a fresh process; supplementary -race parallel leg",
   text="Up to 16 simulated caller tasks run parse/compile jobs (distinct inputs, plugins, operators with colliding dynamic token ids, options; shared builders build many parsers; shared trees compiled repeatedly in seeded configuration orders) under a seeded scheduler (random, PCT-like priorities, round-robin, sequential) that switches tasks at plugin-callback seams inside ParseProgram and Compile. Every job's canonical result (token ids, errors, tree dumps, code per configuration, source maps, debug strings, observed callback log) must be byte-identical to the same job run alone in a fresh process; intra-job invariants check recompilation, source-map-independence of code and debug string = compact output. A supplementary leg runs the same jobs free on 16 goroutines under the race detector. Further: guarded yield points inside /repo (every token pull and write), twin-builder oracle, reconfigured-compiler oracle, handed-out results / parser errors / tokens re-read at job end, residue check after every world, long flat programs (33-80 statements), CRLF sources, keyword typos, hosts completing source maps, plugins replacing the root context, first compilations performed concurrently.",
   note=CAVEAT+"The cooperative scheduler only sees effects that cross a yield point (callback seams; plugin-free jobs interleave at API-call boundaries); pure data races are left to the supplementary -race leg, which is runtime monitoring and not exactly replayable."),
}
na = {
 "C01": "pure function (program text, printer configuration) -> JavaScript text judged by executing both; no schedule, history or fault for a simulator to own; needs differential execution, a different technique family",
 "C02": "pure function token sequence -> tree judged against the ECMAScript grammar; no schedule, history or fault; needs grammar-based differential parsing",
 "C03": "pure function tree -> text -> tree over a bounded enumeration of operator pairs; enumeration of a pure function, not seeded search over schedules or faults",
 "C06": "pure function (program, pretty options) -> text; idempotence/layout-only are relations between outputs of one pure function; the deferred-whitespace state is internal to a single Compile call and nothing can interleave with it",
 "C07": "pure function literal text -> emitted literal text; quantifier is exhaustive enumeration of escapes with a JS engine as value oracle",
 "C08": "pure function (program, configuration) -> (code, mappings); segment order is the deterministic print order of one tree, not a history any other party can influence",
 "C10": "pure function byte string -> token sequence (positional exactness on all inputs); the property itself names coverage-guided fuzzing; no schedule or history, and fault containment is only one of its six clauses",
 "C13": "pure differential between four configurations of the same pure function; no schedule, history or fault",
 "C15": "pure function decorated program -> text; no schedule, history or fault",
}
import os
claimed = [c for c in sys.argv[1:]] or sorted(checks)
m = {
 "version": 1,
 "setup_cmd": "bin/check setup",
 "hooks": {"guard": "verif", "enable": "go build -tags verif (bin/check always builds the harness and /repo's working tree with it): activates github.com/xjslang/xjs/simhook, whose Point(site) calls in lexer.NextToken, parser.NextToken, CodeWriter.WriteString/WriteRune and Compiler.Compile (begin, before String) become yield points of C14's scheduler; without the tag Point is an empty inlined function. All other seams are public API (interceptors, operator constructors, ast.Node implementations).",
           "baseline_off_cmd": "cd /repo && GOFLAGS=-mod=mod GOPROXY=off GOSUMDB=off go test -vet=off -count=1 ./...", "source_commits": ["1439e08"], "add_only": True},
 "engines": [
   {"name":"mapsim","path":"sim/engines/mapsim","serves_properties":["C09"],"kind_free_text":"seeded operation histories on the real SourceMapper vs reference model and independent decoder"},
   {"name":"faultsim","path":"sim/engines/faultsim","serves_properties":["C11","C12"],"kind_free_text":"fault injector over stored source text: every token deletion, separator removal, truncation offset; byte corruption"},
   {"name":"plugsim","path":"sim/engines/plugsim","serves_properties":["C04","C16"],"kind_free_text":"simulator plays all interceptor parties and decides each invocation's action from the seed"},
   {"name":"regsim","path":"sim/engines/regsim","serves_properties":["C05"],"kind_free_text":"seeded registration histories with refusals vs reference model; grouping probes"},
   {"name":"worldsim","path":"sim/engines/worldsim","serves_properties":["C14"],"kind_free_text":"seeded cooperative scheduler over caller tasks parked at plugin-callback seams; solo-run isolation oracle; -race parallel leg"},
 ],
 "checks": [],
 "not_applicable": [{"property_id":k,"reason":v} for k,v in sorted(na.items())],
 "notes": "Technique family: deterministic simulation with fault injection. One integer (VERIF_SEED) decides every choice; each failure is reported with a minimised tape as replay file (bin/check replay <file>). Exit 2 = infrastructure trouble, never a verdict. See DESIGN.md.",
}
m["engines"] = [e for e in m["engines"] if any(p in claimed for p in e["serves_properties"])]
for pid in sorted(claimed):
    c = checks[pid]
    m["checks"].append({
      "property_id": pid,
      "quick_cmd": f"bin/check {pid} quick",
      "thorough_cmd": f"bin/check {pid} thorough",
      "evidence_file": f"evidence/{pid}.json",
      "replay_cmd_template": "bin/check replay {path}",
      "engine": c["engine"],
      "level_claimed": {"category": c["cat"], "text": c["text"], "design_ref": c["ref"]},
      "level_note": c["note"],
      "technique": c["technique"],
    })
for pid in sorted(checks):
    if pid not in claimed:
        m["not_applicable"].append({"property_id": pid, "reason": "check under construction in this session (engine %s); not claimed until it runs clean on the unchanged tree" % checks[pid]["engine"]})
json.dump(m, open(os.path.join(os.path.dirname(__file__), "..", "MANIFEST.json"), "w"), indent=1)
print("claimed:", claimed)
