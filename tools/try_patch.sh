#!/bin/bash
# tools/try_patch.sh <patch.diff> <property> [quick|thorough] [--tests]
# Applies a seeded change to /repo, runs the property's check, and always reverts /repo.
# With --tests the baseline test suite is run on the patched tree first (must pass).
set -u
PATCH="$(readlink -f "$1")"; PROP="$2"; TIER="${3:-quick}"; TESTS="${4:-}"
export GOFLAGS=-mod=mod GOPROXY=off GOSUMDB=off GOTOOLCHAIN=local
if ! git -C /repo diff --quiet; then echo "refusing: /repo has uncommitted changes" >&2; exit 2; fi
git -C /repo apply "$PATCH" || { echo "patch does not apply" >&2; exit 2; }
trap 'git -C /repo checkout -- . ; git -C /repo clean -fdq' EXIT
if [ "$TESTS" = "--tests" ]; then
  ( cd /repo && go build ./... && go test -vet=off -count=1 ./... 2>&1 | tail -12 )
fi
cd /verif && timeout 3600 bin/check "$PROP" "$TIER"
echo "check exit=$?"
