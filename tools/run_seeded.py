#!/usr/bin/env python3
"""tools/run_seeded.py [--tier quick|thorough] [--props C04,C14] [--extra-props] <seeded-id>...   (no ids = all)
Runs the owning property's check against each seeded change (scratch worktree, /repo untouched) and records
the outcome in seeded/<id>/meta.json under detection[<tier>]."""
import json, os, re, subprocess, sys, time
V = os.path.join(os.path.dirname(os.path.abspath(__file__)), "..")
args = sys.argv[1:]; tier = "quick"; props = None
while args and args[0].startswith("--"):
    if args[0] == "--tier": tier = args[1]; args = args[2:]
    elif args[0] == "--props": props = args[1].split(","); args = args[2:]
    else: sys.exit("unknown flag")
ids = args or sorted(os.listdir(os.path.join(V, "seeded")))
for sid in ids:
    d = os.path.join(V, "seeded", sid)
    mp = os.path.join(d, "meta.json")
    if not os.path.exists(mp): continue
    meta = json.load(open(mp))
    for prop in (props or [meta["property"]]):
        t0 = time.time()
        env = dict(os.environ)
        r = subprocess.run([os.path.join(V, "tools", "try_wt.sh"), os.path.join(d, "patch.diff"), prop, tier], capture_output=True, text=True, env=env)
        out = r.stdout + r.stderr
        viol = re.findall(r"kind=(\S+) signature=(\S+)", out)
        m = re.search(r"check %s exit=(\d+)" % prop, out)
        code = int(m.group(1)) if m else -1
        summ = re.search(r"summary .*", out)
        rec = {"check": "bin/check %s %s" % (prop, tier), "exit": code, "detected": code == 1,
               "violations": sorted(set("%s %s" % v for v in viol))[:8], "wall_s": round(time.time() - t0, 1),
               "summary": summ.group(0) if summ else out[-400:]}
        key = tier if prop == meta["property"] else "%s:%s" % (prop, tier)
        meta.setdefault("detection", {})[key] = rec
        print(sid, prop, tier, "DETECTED" if rec["detected"] else ("MISSED" if code == 0 else "INFRA exit=%d" % code), rec["violations"][:3], "%.0fs" % rec["wall_s"], flush=True)
    json.dump(meta, open(mp, "w"), indent=1)
