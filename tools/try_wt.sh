#!/bin/bash
# tools/try_wt.sh <patch.diff> <property>[,<property>...] [quick|thorough] [--tests]
# Runs checks against a scratch worktree of /repo with a seeded change applied; /repo itself is never touched,
# evidence/replays go under /verif/.build/alt. Several of these can run at once. The worktree is removed afterwards.
set -u
PATCH="$(readlink -f "$1")"; PROPS="$2"; TIER="${3:-quick}"; TESTS="${4:-}"
export GOFLAGS=-mod=mod GOPROXY=off GOSUMDB=off GOTOOLCHAIN=local
WT="$(mktemp -d /tmp/xjs-wt.XXXXXX)"
git -C /repo worktree add -q --detach "$WT" HEAD || exit 2
cleanup() { git -C /repo worktree remove --force "$WT" 2>/dev/null; rm -rf "$WT"; git -C /repo worktree prune; ALT="/verif/.build/alt/$(echo "$WT" | md5sum | cut -c1-10)"; [ -n "${KEEP_ALT:-}" ] || rm -rf "$ALT"; }
trap cleanup EXIT
git -C "$WT" apply "$PATCH" 2>/dev/null || git -C "$WT" apply -3 "$PATCH" || { echo "patch does not apply" >&2; exit 2; }
if [ "$TESTS" = "--tests" ]; then
  ( cd "$WT" && go build ./... && go test -vet=off -count=1 ./... 2>&1 | tail -12 )
fi
rc=0
for P in ${PROPS//,/ }; do
  ( cd /verif && VERIF_REPO="$WT" timeout 7200 bin/check "$P" "$TIER" ) 2>&1 | sed "s#$WT#<wt>#g"
  r=${PIPESTATUS[0]}
  echo "check $P exit=$r"
  [ $r -ne 0 ] && rc=$r
done
exit $rc
