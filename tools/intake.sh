#!/bin/bash
# tools/intake.sh <property> <wave-letter>   — confirm every /tmp/agents/<prop><wave>.out/<k>/ and run the property's quick check on the kept ones
set -u
P="$1"; W="$2"; ids=()
for d in /tmp/agents/${P}${W}.out/[0-9]*; do
  [ -f "$d/patch.diff" ] || continue
  k=$(basename "$d"); demo=$(ls "$d" | grep -E '_test\.go$' | head -1)
  [ -n "$demo" ] || { echo "RESULT $P-$W$k: no demo"; continue; }
  pkg=$(grep -m1 -oE '^package [a-z_]+' "$d/$demo" | awk '{print $2}')
  case "$pkg" in
    parser|parser_test) dir=parser;; lexer|lexer_test) dir=lexer;; sourcemap|sourcemap_test) dir=sourcemap;; compiler|compiler_test) dir=compiler;;
    debug|debug_test) dir=debug;; ast|ast_test) dir=ast;; token|token_test) dir=token;; integration|integration_test) dir=test/integration;; *) dir=parser;;
  esac
  /verif/tools/confirm_seed.sh "$d" "$P" "$P-$W$k" "$dir/zz_seed_${W}${k}_test.go" 2>&1 | grep -E "RESULT|apply|cannot" 
  [ -d "/verif/seeded/$P-$W$k" ] && ids+=("$P-$W$k")
done
[ ${#ids[@]} -gt 0 ] && /verif/tools/run_seeded.py "${ids[@]}"
