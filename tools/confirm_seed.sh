#!/bin/bash
# tools/confirm_seed.sh <dir with patch.diff + demo + notes.md> <property> <seeded-id> [demo-dest-relative-path]
# Confirms a seeded change independently in a scratch worktree: patch applies, builds, existing suite passes,
# demonstration fails with the change and passes without it. On success copies it to /verif/seeded/<id>/ and
# writes meta.json (detection results are added by tools/run_seeded.sh).
set -u
SRC="$(readlink -f "$1")"; PROP="$2"; ID="$3"; DEST="${4:-}"
export GOFLAGS=-mod=mod GOPROXY=off GOSUMDB=off GOTOOLCHAIN=local
DEMO="$(ls "$SRC" | grep -E '_test\.go$|main\.go$' | head -1)"
[ -n "$DEMO" ] || { echo "no demonstration file in $SRC"; exit 2; }
if [ -z "$DEST" ]; then
  DEST="$(grep -oE '(ast|parser|lexer|compiler|sourcemap|token|debug|test/integration)/(zz|demo|seeded)[A-Za-z0-9_]*_test\.go' "$SRC/notes.md" | head -1)"
  [ -n "$DEST" ] || DEST="$(grep -oE '(ast|parser|lexer|compiler|sourcemap|token|debug|test/integration)/[A-Za-z0-9_]+_test\.go' "$SRC/notes.md" | head -1)"
fi
[ -n "$DEST" ] || { echo "cannot tell where the demo goes; pass it as 4th argument"; exit 2; }
WT="$(mktemp -d /tmp/xjs-cf.XXXXXX)"; LOGD="$(mktemp -d /tmp/xjs-cflog.XXXXXX)"
git -C /repo worktree add -q --detach "$WT" HEAD || exit 2
trap 'git -C /repo worktree remove --force "$WT" 2>/dev/null; rm -rf "$WT" "$LOGD"; git -C /repo worktree prune' EXIT
PKG="./$(dirname "$DEST")/"
RUNPAT="$(grep -oE 'func (Test[A-Za-z0-9_]+)' "$SRC/$DEMO" | awk '{print $2}' | paste -sd'|')"
mkdir -p "$(dirname "$WT/$DEST")"; cp "$SRC/$DEMO" "$WT/$DEST"
( cd "$WT" && timeout 300 go test -vet=off -count=1 -run "^($RUNPAT)\$" "$PKG" >"$LOGD/clean.log" 2>&1 ); CLEAN=$?
rm -f "$WT/$DEST"
git -C "$WT" apply "$SRC/patch.diff" 2>/dev/null || git -C "$WT" apply -3 "$SRC/patch.diff" || { echo "RESULT $ID: patch does not apply"; exit 1; }
git -C "$WT" add -A; git -C "$WT" diff --cached HEAD > "$LOGD/patch.rebased"; git -C "$WT" reset -q   # the change expressed against the current HEAD (hook commit included)
( cd "$WT" && go build ./... >"$LOGD/build.log" 2>&1 ); BUILD=$?
( cd "$WT" && timeout 600 go test -vet=off -count=1 ./... >"$LOGD/suite.log" 2>&1 ); SUITE=$?
mkdir -p "$(dirname "$WT/$DEST")"; cp "$SRC/$DEMO" "$WT/$DEST"
( cd "$WT" && timeout 300 go test -vet=off -count=1 -run "^($RUNPAT)\$" "$PKG" >"$LOGD/mut.log" 2>&1 ); MUT=$?
echo "RESULT $ID: demo-on-clean=$CLEAN (want 0) build=$BUILD (want 0) suite=$SUITE (want 0) demo-with-change=$MUT (want !=0)"
if [ $CLEAN -eq 0 ] && [ $BUILD -eq 0 ] && [ $SUITE -eq 0 ] && [ $MUT -ne 0 ]; then
  OUT="${VERIF_SEEDED_DIR:-/verif/seeded}/$ID"; mkdir -p "$OUT"
  cp "$LOGD/patch.rebased" "$OUT/patch.diff"; cp "$SRC/$DEMO" "$OUT/$DEMO"; cp "$SRC/notes.md" "$OUT/notes.md" 2>/dev/null
  python3 - "$OUT" "$PROP" "$ID" "$DEST" "$RUNPAT" <<'PY'
import json,sys,os
out,prop,sid,dest,runpat=sys.argv[1:6]
notes=open(os.path.join(out,'notes.md')).read() if os.path.exists(os.path.join(out,'notes.md')) else ''
meta={"id":sid,"property":prop,"origin":"independent sub-agent given only the property text and a scratch worktree",
 "demo_file":os.path.basename([f for f in os.listdir(out) if f.endswith('.go')][0]),"demo_destination":dest,"demo_run":"go test -vet=off -count=1 -run '^(%s)$' ./%s/"%(runpat,os.path.dirname(dest)),
 "confirmed":{"patch_applies":True,"builds":True,"existing_suite_passes":True,"demo_passes_without_change":True,"demo_fails_with_change":True,
   "how":"tools/confirm_seed.sh in a scratch worktree of /repo HEAD"},
 "needs_to_manifest":"see notes.md","detection":{}}
json.dump(meta,open(os.path.join(out,'meta.json'),'w'),indent=1)
PY
  echo "kept as $OUT"
else
  echo "--- clean demo log"; tail -15 "$LOGD/clean.log"; echo "--- suite log"; tail -15 "$LOGD/suite.log"; echo "--- demo with change"; tail -8 "$LOGD/mut.log"
  exit 1
fi
