package kernel

import "time"

// ShrinkTape minimises a failing tape while pred keeps returning a violation
// (pred encapsulates "same property, same signature"). Strategy, in the spirit
// of internal test-case reduction: delete chunks (drops whole jobs/ops/plugins
// because engines draw counts first and details after), zero cells (0 is always
// the simplest choice), then lower individual values. Budgeted by wall time.
func ShrinkTape(tape []uint32, budget time.Duration, pred func([]uint32) *Violation) ([]uint32, *Violation, int) {
	deadline := time.Now().Add(budget)
	evals := 0
	try := func(t []uint32) *Violation {
		evals++
		return pred(t)
	}
	cur := append([]uint32(nil), tape...)
	curV := try(cur)
	if curV == nil {
		return tape, nil, evals
	}
	trim := func(t []uint32) []uint32 {
		n := len(t)
		for n > 0 && t[n-1] == 0 {
			n--
		}
		return t[:n]
	}
	cur = trim(cur)
	expired := func() bool { return time.Now().After(deadline) }
	for pass := 0; pass < 12 && !expired(); pass++ {
		improved := false
		// 1. chunk deletion
		for size := len(cur) / 2; size >= 1 && !expired(); size /= 2 {
			for i := 0; i+size <= len(cur) && !expired(); {
				cand := make([]uint32, 0, len(cur)-size)
				cand = append(cand, cur[:i]...)
				cand = append(cand, cur[i+size:]...)
				if v := try(cand); v != nil {
					cur, curV = trim(cand), v
					improved = true
				} else {
					i += size
				}
			}
		}
		// 2. zeroing runs of cells, then single cells
		for size := 8; size >= 1 && !expired(); size /= 2 {
			for i := 0; i+size <= len(cur) && !expired(); i += size {
				allZero := true
				for j := i; j < i+size; j++ {
					if cur[j] != 0 {
						allZero = false
					}
				}
				if allZero {
					continue
				}
				cand := append([]uint32(nil), cur...)
				for j := i; j < i+size; j++ {
					cand[j] = 0
				}
				if v := try(cand); v != nil {
					cur, curV = trim(cand), v
					improved = true
				}
			}
		}
		// 3. lowering individual values
		for i := 0; i < len(cur) && !expired(); i++ {
			for cur[i] > 0 && !expired() {
				cand := append([]uint32(nil), cur...)
				cand[i] = cur[i] / 2
				if v := try(cand); v != nil {
					cur, curV = cand, v
					improved = true
					continue
				}
				cand[i] = cur[i] - 1
				if v := try(cand); v != nil {
					cur, curV = cand, v
					improved = true
					continue
				}
				break
			}
			if i >= len(cur) {
				break
			}
		}
		cur = trim(cur)
		if !improved {
			break
		}
	}
	return cur, curV, evals
}
