package kernel

import (
	"sort"
)

// Violation is one observed breach of a property's oracle in one run.
type Violation struct {
	Property  string `json:"property"`
	Kind      string `json:"kind"`      // clause / oracle that failed
	Signature string `json:"signature"` // class key: known-finding matching and the class preserved while shrinking
	Detail    string `json:"detail"`    // human readable, deterministic
	// Materialised is a human-readable rendering of the failing case
	// (program text, history, schedule, fault); redundant with the tape.
	Materialised any `json:"materialised,omitempty"`
}

// Stats are additive counters reported in evidence: faults fired, probes hit,
// strategies used, discarded programs, ...
type Stats struct {
	Counters map[string]int64
}

func NewStats() *Stats { return &Stats{Counters: map[string]int64{}} }

func (s *Stats) Add(name string, n int64) { s.Counters[name] += n }
func (s *Stats) Inc(name string)          { s.Counters[name]++ }

func (s *Stats) Merge(o map[string]int64) {
	for k, v := range o {
		s.Counters[k] += v
	}
}

func SortedKeys[V any](m map[string]V) []string {
	keys := make([]string, 0, len(m))
	for k := range m {
		keys = append(keys, k)
	}
	sort.Strings(keys)
	return keys
}

// RunResult is what an engine reports for one simulated run.
type RunResult struct {
	Violations  []Violation
	Fingerprint uint64 // identity of the explored case (interleaving / history / program+faults)
	Nontrivial  bool   // by the engine's stated rule
	Steps       int64  // logical steps (yields, operations, fault cases, callbacks)
	Evals       int64  // individual cases evaluated inside this run (>=1)
	Sample      any    // optional: the case written out, for evidence
}

// Engine is one simulator. An instance lives in one worker process and is used
// for many runs, sequentially.
type Engine interface {
	Name() string
	// Run performs one simulated run for property prop. Every choice must come
	// from ch. st receives counters. The run must be a pure function of the
	// choices and the code under test.
	Run(prop string, ch *Chooser, st *Stats) RunResult
	// Close releases per-worker resources (child processes).
	Close()
}

// TierSpec: how much a tier explores.
type TierSpec struct {
	Runs        int64 // simulated runs (upper bound)
	WallSeconds int   // wall-clock cap for the exploration phase; when hit the batch is truncated (reported)
	ShrinkSecs  int   // per-violation minimisation budget
	RunBudgetMs int   // watchdog: a single run taking longer than this is a suspected no-progress
}

// EngineInfo registers an engine with the command.
type EngineInfo struct {
	Name       string
	Properties []string
	Level      string // evidence level
	New        func(tier string) Engine
	Tier       func(prop, tier string) TierSpec
	Rule       string // evidence: how cases are generated and what makes one nontrivial/distinct
	Real       []string
	Simulated  []string
	Oracles    []string
	Assume     []string
	// RequiredProbes: counters that must be >0 for the selftest to pass.
	RequiredProbes map[string][]string
	// PostBatch lets an engine add a supplementary, non-simulated leg
	// (C14's -race parallel leg). Optional.
	PostBatch func(ctx *BatchContext) []Violation
}

// BatchContext is handed to PostBatch.
type BatchContext struct {
	Prop      string
	Tier      string
	Seed      int64
	VerifDir  string
	BuildDir  string
	Stats     *Stats
	ExtraInfo map[string]any
	// Infra collects infrastructure trouble of the supplementary leg (exit 2, never a verdict).
	Infra []string
}

// Poisonable is implemented by engines whose later runs in the same process
// cannot be trusted after a violation (process-global state may be polluted).
type Poisonable interface{ Poisoned() bool }

// IsolatedEvaluator is implemented by engines whose minimisation candidates
// must be evaluated in a fresh process.
type IsolatedEvaluator interface {
	EvalIsolated(prop string, tape []uint32) []Violation
}

var registry = map[string]*EngineInfo{}

func Register(e *EngineInfo) { registry[e.Name] = e }

func EngineFor(prop string) *EngineInfo {
	for _, name := range SortedKeys(registry) {
		e := registry[name]
		for _, p := range e.Properties {
			if p == prop {
				return e
			}
		}
	}
	return nil
}

func EngineByName(name string) *EngineInfo { return registry[name] }

func AllEngines() []*EngineInfo {
	var out []*EngineInfo
	for _, name := range SortedKeys(registry) {
		out = append(out, registry[name])
	}
	return out
}
