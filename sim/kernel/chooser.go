// Package kernel is the simulation kernel shared by all engines: the single
// source of choices (chooser + tape), the run/violation types, the worker loop
// with its watchdog, the supervisor that fans runs out over worker processes,
// tape minimisation, replay files, known findings and evidence.
package kernel

import (
	"hash/fnv"
)

// RNG is splitmix64: tiny, fast, and good enough; one per run.
type RNG struct{ s uint64 }

func NewRNG(seed uint64) *RNG { return &RNG{s: seed} }

func (r *RNG) Next() uint64 {
	r.s += 0x9E3779B97F4A7C15
	z := r.s
	z = (z ^ (z >> 30)) * 0xBF58476D1CE4E5B9
	z = (z ^ (z >> 27)) * 0x94D049BB133111EB
	return z ^ (z >> 31)
}

// RunSeed derives the per-run seed from (VERIF_SEED, property, engine, run index).
func RunSeed(verifSeed int64, prop, engine string, run int64) uint64 {
	h := fnv.New64a()
	var b [8]byte
	put := func(v uint64) {
		for i := 0; i < 8; i++ {
			b[i] = byte(v >> (8 * i))
		}
		h.Write(b[:])
	}
	put(uint64(verifSeed))
	h.Write([]byte(prop))
	h.Write([]byte{0})
	h.Write([]byte(engine))
	h.Write([]byte{0})
	put(uint64(run))
	// one splitmix round to decorrelate neighbouring run indexes
	return NewRNG(h.Sum64()).Next()
}

// Chooser is the only source of nondeterminism an engine may use. In record
// mode values come from the run's RNG and are appended to the tape; in replay
// mode they come from the tape (exhausted tape => 0, the simplest choice).
type Chooser struct {
	rng    *RNG
	tape   []uint32
	pos    int
	replay bool
	// Draws counts Choose calls (logical choice points), in both modes.
	Draws int64
}

func NewRecordChooser(seed uint64) *Chooser {
	return &Chooser{rng: NewRNG(seed)}
}

func NewReplayChooser(tape []uint32) *Chooser {
	return &Chooser{tape: tape, replay: true}
}

// Choose returns a value in [0,n). n<=1 returns 0 without consuming anything.
// Call sites arrange for 0 to be the simplest choice.
func (c *Chooser) Choose(n int) int {
	if n <= 1 {
		return 0
	}
	c.Draws++
	if c.replay {
		if c.pos >= len(c.tape) {
			c.pos++
			return 0
		}
		v := c.tape[c.pos]
		c.pos++
		return int(v % uint32(n))
	}
	v := uint32(c.rng.Next()>>33) % uint32(n)
	c.tape = append(c.tape, v)
	return int(v)
}

// Bool is true with probability num/den (false is the simple choice).
func (c *Chooser) Bool(num, den int) bool {
	if num <= 0 {
		return false
	}
	if num >= den {
		return true
	}
	// value 0 must map to false: true iff v >= den-num
	return c.Choose(den) >= den-num
}

// Weighted picks index i with probability w[i]/sum(w); index 0 is the simple one.
func (c *Chooser) Weighted(w ...int) int {
	sum := 0
	for _, x := range w {
		sum += x
	}
	if sum <= 0 {
		return 0
	}
	v := c.Choose(sum)
	for i, x := range w {
		if v < x {
			return i
		}
		v -= x
	}
	return len(w) - 1
}

// Range returns a value in [lo,hi].
func (c *Chooser) Range(lo, hi int) int {
	if hi <= lo {
		return lo
	}
	return lo + c.Choose(hi-lo+1)
}

// Tape returns the values consumed so far (record mode: everything drawn;
// replay mode: the prefix of the tape that was actually used, zero-extended).
func (c *Chooser) Tape() []uint32 {
	if !c.replay {
		return append([]uint32(nil), c.tape...)
	}
	out := make([]uint32, c.pos)
	copy(out, c.tape)
	return out
}

// Used reports how many tape cells the run consumed.
func (c *Chooser) Used() int {
	if c.replay {
		return c.pos
	}
	return len(c.tape)
}

// Fork derives an independent sub-chooser whose draws are NOT recorded on this
// tape; only its seed is (one cell). Used where a long, shrink-irrelevant
// stream is needed. Replay reproduces it exactly from the recorded seed cell.
func (c *Chooser) Fork() *RNG {
	hi := uint64(c.Choose(1 << 30))
	lo := uint64(c.Choose(1 << 30))
	return NewRNG(hi<<30 | lo)
}

// Hash64 is FNV-1a over a string; used for fingerprints.
func Hash64(s string) uint64 {
	h := fnv.New64a()
	h.Write([]byte(s))
	return h.Sum64()
}

// Mix combines two 64-bit hashes order-sensitively.
func Mix(a, b uint64) uint64 {
	a ^= b + 0x9E3779B97F4A7C15 + (a << 6) + (a >> 2)
	return a
}
