package kernel

import (
	"encoding/binary"
	"encoding/json"
	"fmt"
	"os"
	"runtime"
	"runtime/debug"
	"sync/atomic"
	"time"
)

// FoundViolation is a violation plus what is needed to replay it.
type FoundViolation struct {
	Violation
	Run      int64    `json:"run"`
	Tape     []uint32 `json:"tape"`
	OrigTape []uint32 `json:"orig_tape,omitempty"`
	Shrunk   bool     `json:"shrunk"`
	ShrinkEvals int   `json:"shrink_evals,omitempty"`
}

// HangReport: the watchdog fired while run Run was executing.
type HangReport struct {
	Run     int64    `json:"run"`
	Phase   string   `json:"phase"` // "run" or "shrink"
	Tape    []uint32 `json:"tape,omitempty"`
	BudgetMs int     `json:"budget_ms"`
	Reason  string   `json:"reason"` // "time" | "memory"
}

type WorkerSummary struct {
	Worker     int              `json:"worker"`
	Workers    int              `json:"workers"`
	Runs       int64            `json:"runs"`
	Evals      int64            `json:"evals"`
	Steps      int64            `json:"steps"`
	Nontrivial int64            `json:"nontrivial"`
	Counters   map[string]int64 `json:"counters"`
	Violations []FoundViolation `json:"violations"`
	SigCounts  map[string]int64 `json:"sig_counts"`
	Samples    []any            `json:"samples"`
	FPFile     string           `json:"fp_file"`
	Truncated  bool             `json:"truncated"`
	Hang       *HangReport      `json:"hang,omitempty"`
	WallS      float64          `json:"wall_s"`
	LastRun    int64            `json:"last_run"`
	Done       bool             `json:"done"`
}

type WorkerArgs struct {
	Prop      string
	Engine    string
	Tier      string
	Seed      int64
	Worker    int
	Workers   int
	Runs      int64 // total runs over all workers
	Until     int64 // if >=0: stop after executing this run index (hang confirmation)
	OnlyRun   int64 // if >=0: execute just this run index
	DeadlineS int
	BudgetMs  int
	ShrinkS   int
	OutFile   string
	KnownSigs map[string]bool // signatures not worth shrinking (known findings)
	MaxShrink int             // max distinct signatures to shrink
}

var (
	wdRunStart atomic.Int64 // unix nanos of current run start; 0 = idle
	wdRun      atomic.Int64
	wdPhase    atomic.Value
	wdBudgetNs atomic.Int64
)

// PauseWatchdog / ResumeWatchdog let an engine exclude time it spends waiting for its own child
// processes (reference computations) from the per-run budget: only time spent in the code under
// test counts as "no progress".
func PauseWatchdog() { wdRunStart.Store(0) }
func ResumeWatchdog() {
	wdRunStart.Store(time.Now().UnixNano())
}

func writeJSONAtomic(path string, v any) error {
	b, err := json.Marshal(v)
	if err != nil {
		return err
	}
	tmp := path + ".tmp"
	if err := os.WriteFile(tmp, b, 0o644); err != nil {
		return err
	}
	return os.Rename(tmp, path)
}

// RunWorker executes this worker's share of the batch and writes a summary.
// Exit status (returned): 0 ok, 3 watchdog fired (summary has Hang).
func RunWorker(a WorkerArgs) int {
	info := EngineByName(a.Engine)
	if info == nil {
		fmt.Fprintf(os.Stderr, "worker: unknown engine %q\n", a.Engine)
		return 2
	}
	debug.SetGCPercent(200)
	eng := info.New(a.Tier)
	defer eng.Close()
	st := NewStats()
	sum := &WorkerSummary{Worker: a.Worker, Workers: a.Workers, Counters: st.Counters, SigCounts: map[string]int64{}}
	start := time.Now()
	deadline := start.Add(time.Duration(a.DeadlineS) * time.Second)

	var curChooser atomic.Pointer[Chooser]
	wdPhase.Store("run")
	wdBudgetNs.Store(int64(a.BudgetMs) * int64(time.Millisecond))
	// Watchdog: real-time goroutine, only observes; never influences a run.
	go func() {
		var ms runtime.MemStats
		tick := 0
		for {
			time.Sleep(50 * time.Millisecond)
			tick++
			rs := wdRunStart.Load()
			reason := ""
			if rs != 0 && time.Now().UnixNano()-rs > wdBudgetNs.Load() {
				reason = "time"
			}
			if reason == "" && tick%10 == 0 {
				runtime.ReadMemStats(&ms)
				if ms.HeapAlloc > 6<<30 {
					reason = "memory"
				}
			}
			if reason != "" {
				h := &HangReport{Run: wdRun.Load(), Phase: wdPhase.Load().(string), BudgetMs: a.BudgetMs, Reason: reason}
				if c := curChooser.Load(); c != nil && !c.replay {
					// racy read of a stuck run's tape; informative only
					h.Tape = append([]uint32(nil), c.tape...)
				}
				sum.Hang = h
				sum.WallS = time.Since(start).Seconds()
				_ = writeJSONAtomic(a.OutFile, sum)
				os.Exit(3)
			}
		}
	}()

	fps := map[uint64]struct{}{}
	const fpCap = 4 << 20
	firstBySig := map[string]*FoundViolation{}
	var sigOrder []string

	runOne := func(k int64) {
		seed := RunSeed(a.Seed, a.Prop, a.Engine, k)
		ch := NewRecordChooser(seed)
		curChooser.Store(ch)
		wdRun.Store(k)
		wdRunStart.Store(time.Now().UnixNano())
		res := eng.Run(a.Prop, ch, st)
		wdRunStart.Store(0)
		sum.Runs++
		sum.LastRun = k
		ev := res.Evals
		if ev < 1 {
			ev = 1
		}
		sum.Evals += ev
		sum.Steps += res.Steps
		if res.Nontrivial {
			if _, seen := fps[res.Fingerprint]; !seen {
				sum.Nontrivial++
				if len(fps) < fpCap {
					fps[res.Fingerprint] = struct{}{}
				}
			}
		}
		if res.Sample != nil && len(sum.Samples) < 3 && (sum.Runs == 1 || sum.Runs%97 == 0) {
			sum.Samples = append(sum.Samples, res.Sample)
		}
		for _, v := range res.Violations {
			sum.SigCounts[v.Property+"|"+v.Signature]++
			key := v.Property + "|" + v.Signature
			if _, ok := firstBySig[key]; !ok {
				fv := &FoundViolation{Violation: v, Run: k, Tape: ch.Tape()}
				firstBySig[key] = fv
				sigOrder = append(sigOrder, key)
			}
		}
	}

	if a.OnlyRun >= 0 {
		runOne(a.OnlyRun)
	} else {
		for k := int64(a.Worker); k < a.Runs; k += int64(a.Workers) {
			if a.Until >= 0 && k > a.Until {
				break
			}
			if a.DeadlineS > 0 && time.Now().After(deadline) {
				sum.Truncated = true
				break
			}
			runOne(k)
			if pz, ok := eng.(Poisonable); ok && pz.Poisoned() {
				sum.Truncated = true
				break
			}
		}
	}

	for _, key := range sigOrder {
		sum.Violations = append(sum.Violations, *firstBySig[key])
	}
	// fingerprints to file for the supervisor's union
	if a.OutFile != "" {
		fpPath := a.OutFile + ".fp"
		buf := make([]byte, 0, 8*len(fps))
		for fp := range fps {
			buf = binary.LittleEndian.AppendUint64(buf, fp)
		}
		_ = os.WriteFile(fpPath, buf, 0o644)
		sum.FPFile = fpPath
	}
	sum.WallS = time.Since(start).Seconds()
	// Interim summary before shrinking: if a shrink evaluation hangs the
	// supervisor still has the unshrunk violations.
	_ = writeJSONAtomic(a.OutFile, sum)

	// Minimise (at most MaxShrink unknown signatures).
	wdPhase.Store("shrink")
	shrunk := 0
	for i := range sum.Violations {
		fv := &sum.Violations[i]
		if a.KnownSigs[fv.Property+"|"+fv.Signature] || shrunk >= a.MaxShrink || a.ShrinkS <= 0 {
			continue
		}
		shrunk++
		orig := append([]uint32(nil), fv.Tape...)
		best, bestV, evals := ShrinkTape(fv.Tape, time.Duration(a.ShrinkS)*time.Second, func(t []uint32) *Violation {
			ch := NewReplayChooser(t)
			curChooser.Store(ch)
			wdRun.Store(fv.Run)
			var vs []Violation
			if ie, ok := eng.(IsolatedEvaluator); ok {
				// evaluated in a child process that has its own time limit
				vs = ie.EvalIsolated(a.Prop, t)
			} else {
				wdRunStart.Store(time.Now().UnixNano())
				vs = eng.Run(a.Prop, ch, NewStats()).Violations
				wdRunStart.Store(0)
			}
			for j := range vs {
				v := &vs[j]
				if v.Property == fv.Property && v.Signature == fv.Signature {
					return v
				}
			}
			return nil
		})
		fv.ShrinkEvals = evals
		if bestV != nil && len(best) <= len(orig) {
			fv.OrigTape = orig
			fv.Tape = best
			fv.Violation = *bestV
			fv.Shrunk = true
		}
		_ = writeJSONAtomic(a.OutFile, sum)
	}
	sum.Done = true
	sum.WallS = time.Since(start).Seconds()
	if err := writeJSONAtomic(a.OutFile, sum); err != nil {
		fmt.Fprintf(os.Stderr, "worker: cannot write summary: %v\n", err)
		return 2
	}
	return 0
}
