package kernel

import (
	"crypto/sha256"
	"encoding/binary"
	"encoding/hex"
	"encoding/json"
	"fmt"
	"os"
	"os/exec"
	"path/filepath"
	"runtime"
	"sort"
	"strconv"
	"strings"
	"sync"
	"time"
)

// ---- known findings -------------------------------------------------------

type KnownFinding struct {
	Property  string `json:"property"`
	Signature string `json:"signature"`
	What      string `json:"what"`
}

type FixedFinding struct {
	Property string `json:"property"`
	Commit   string `json:"commit"`
	What     string `json:"what"`
}

type KnownFile struct {
	Findings []KnownFinding `json:"findings"`
	Fixed    []FixedFinding `json:"fixed"`
}

func LoadKnown(verifDir string) (*KnownFile, error) {
	kf := &KnownFile{}
	b, err := os.ReadFile(filepath.Join(verifDir, "known_findings.json"))
	if err != nil {
		if os.IsNotExist(err) {
			return kf, nil
		}
		return nil, err
	}
	if err := json.Unmarshal(b, kf); err != nil {
		return nil, err
	}
	return kf, nil
}

// ---- replay files ----------------------------------------------------------

type ReplayFile struct {
	Property     string     `json:"property"`
	Engine       string     `json:"engine"`
	Tier         string     `json:"tier"`
	VerifSeed    int64      `json:"verif_seed"`
	RunIndex     int64      `json:"run_index"`
	Mode         string     `json:"mode"` // "tape" | "history" (no-progress needing the worker's run history)
	Worker       int        `json:"worker,omitempty"`
	Workers      int        `json:"workers,omitempty"`
	Runs         int64      `json:"runs,omitempty"`
	BudgetMs     int        `json:"budget_ms,omitempty"`
	Tape         []uint32   `json:"tape"`
	OrigTape     []uint32   `json:"orig_tape,omitempty"`
	Expected     Violation  `json:"expected"`
	Shrunk       bool       `json:"shrunk"`
	ReplayedOK   bool       `json:"replayed_in_fresh_process"`
	CodeFingerprint string  `json:"code_fingerprint"`
}

// RepoDir is the tree under test (VERIF_REPO, default /repo).
func RepoDir() string {
	if d := os.Getenv("VERIF_REPO"); d != "" {
		return d
	}
	return "/repo"
}

func evidenceDir(verifDir string) string {
	if d := os.Getenv("VERIF_EVIDENCE_DIR"); d != "" {
		return d
	}
	return filepath.Join(verifDir, "evidence")
}

func replayDir(verifDir string) string {
	if d := os.Getenv("VERIF_REPLAY_DIR"); d != "" {
		return d
	}
	return filepath.Join(verifDir, "replays")
}

func replayPath(verifDir string, rf *ReplayFile) string {
	h := sha256.New()
	h.Write([]byte(rf.Property + "|" + rf.Expected.Signature + "|"))
	for _, v := range rf.Tape {
		var b [4]byte
		binary.LittleEndian.PutUint32(b[:], v)
		h.Write(b[:])
	}
	fmt.Fprintf(h, "|%d|%d|%s", rf.VerifSeed, rf.RunIndex, rf.Mode)
	return filepath.Join(replayDir(verifDir), rf.Property+"-"+hex.EncodeToString(h.Sum(nil))[:12]+".json")
}

// RepoFingerprint hashes the non-test Go sources of /repo (what the check was built from).
func RepoFingerprint(repo string) string {
	h := sha256.New()
	var files []string
	filepath.Walk(repo, func(p string, fi os.FileInfo, err error) error {
		if err != nil {
			return nil
		}
		if fi.IsDir() {
			if fi.Name() == ".git" || fi.Name() == "test" || fi.Name() == "testdata" {
				return filepath.SkipDir
			}
			return nil
		}
		if strings.HasSuffix(p, ".go") && !strings.HasSuffix(p, "_test.go") {
			files = append(files, p)
		}
		return nil
	})
	sort.Strings(files)
	for _, f := range files {
		b, _ := os.ReadFile(f)
		h.Write([]byte(f))
		h.Write(b)
	}
	return hex.EncodeToString(h.Sum(nil))[:16]
}

// ---- evidence ---------------------------------------------------------------

type Evidence struct {
	PropertyID  string         `json:"property_id"`
	Tier        string         `json:"tier"`
	Seed        int64          `json:"seed"`
	Level       string         `json:"level"`
	Coverage    map[string]any `json:"coverage"`
	Assumptions []string       `json:"assumptions"`
	WallS       float64        `json:"wall_s"`
	Violations  int            `json:"violations"`
}

// ---- supervisor -------------------------------------------------------------

type CheckArgs struct {
	Prop     string
	Tier     string
	Seed     int64
	VerifDir string
	Workers  int
	RunsOverride int64
	WallOverride int
}

func envInt(name string, def int64) int64 {
	if s := os.Getenv(name); s != "" {
		if v, err := strconv.ParseInt(s, 10, 64); err == nil {
			return v
		}
	}
	return def
}

type workerProc struct {
	idx     int
	cmd     *exec.Cmd
	outFile string
	exit    int
	killed  bool
	stderr  strings.Builder
}

func spawnWorker(exe string, a CheckArgs, info *EngineInfo, spec TierSpec, idx, workers int, outFile string, extra ...string) *workerProc {
	args := []string{"worker",
		"-prop", a.Prop, "-engine", info.Name, "-tier", a.Tier,
		"-seed", strconv.FormatInt(a.Seed, 10),
		"-w", strconv.Itoa(idx), "-W", strconv.Itoa(workers),
		"-runs", strconv.FormatInt(spec.Runs, 10),
		"-deadline", strconv.Itoa(spec.WallSeconds),
		"-budget-ms", strconv.Itoa(spec.RunBudgetMs),
		"-shrink-s", strconv.Itoa(spec.ShrinkSecs),
		"-out", outFile,
		"-verif", a.VerifDir,
	}
	args = append(args, extra...)
	cmd := exec.Command(exe, args...)
	wp := &workerProc{idx: idx, cmd: cmd, outFile: outFile}
	cmd.Stdout = nil
	cmd.Stderr = &wp.stderr
	cmd.Env = append(os.Environ(), "GOMAXPROCS=2", "VERIFSIM_CHILD=1")
	return wp
}

func readSummary(path string) (*WorkerSummary, error) {
	b, err := os.ReadFile(path)
	if err != nil {
		return nil, err
	}
	s := &WorkerSummary{}
	if err := json.Unmarshal(b, s); err != nil {
		return nil, err
	}
	return s, nil
}

const maxReported = 12

// Check runs one property's check and returns the process exit code.
func Check(a CheckArgs) int {
	t0 := time.Now()
	info := EngineFor(a.Prop)
	if info == nil {
		fmt.Fprintf(os.Stderr, "no engine claims property %s\n", a.Prop)
		return 2
	}
	spec := info.Tier(a.Prop, a.Tier)
	if a.RunsOverride > 0 {
		spec.Runs = a.RunsOverride
	}
	if v := envInt("VERIF_RUNS", 0); v > 0 {
		spec.Runs = v
	}
	if a.WallOverride > 0 {
		spec.WallSeconds = a.WallOverride
	}
	if v := envInt("VERIF_WALL", 0); v > 0 {
		spec.WallSeconds = int(v)
	}
	workers := a.Workers
	if workers <= 0 {
		workers = runtime.NumCPU()
		if workers > 16 {
			workers = 16
		}
	}
	if int64(workers) > spec.Runs {
		workers = int(spec.Runs)
	}
	known, err := LoadKnown(a.VerifDir)
	if err != nil {
		fmt.Fprintf(os.Stderr, "cannot read known_findings.json: %v\n", err)
		return 2
	}
	knownSig := map[string]*KnownFinding{}
	for i := range known.Findings {
		k := &known.Findings[i]
		knownSig[k.Property+"|"+k.Signature] = k
	}
	exe, err := os.Executable()
	if err != nil {
		fmt.Fprintln(os.Stderr, err)
		return 2
	}
	workDir := filepath.Join(a.VerifDir, ".build", "work", fmt.Sprintf("%s-%s-%d", a.Prop, a.Tier, os.Getpid()))
	os.MkdirAll(workDir, 0o755)
	defer os.RemoveAll(workDir)
	os.MkdirAll(replayDir(a.VerifDir), 0o755)
	os.MkdirAll(evidenceDir(a.VerifDir), 0o755)

	fmt.Printf("check property=%s engine=%s tier=%s seed=%d workers=%d runs<=%d wall<=%ds\n",
		a.Prop, info.Name, a.Tier, a.Seed, workers, spec.Runs, spec.WallSeconds)

	// launch
	procs := make([]*workerProc, workers)
	var wg sync.WaitGroup
	overall := time.Duration(spec.WallSeconds+spec.ShrinkSecs*3+120) * time.Second
	for i := 0; i < workers; i++ {
		wp := spawnWorker(exe, a, info, spec, i, workers, filepath.Join(workDir, fmt.Sprintf("w%d.json", i)))
		procs[i] = wp
		if err := wp.cmd.Start(); err != nil {
			fmt.Fprintf(os.Stderr, "cannot start worker: %v\n", err)
			return 2
		}
		wg.Add(1)
		go func(wp *workerProc) {
			defer wg.Done()
			done := make(chan error, 1)
			go func() { done <- wp.cmd.Wait() }()
			select {
			case err := <-done:
				wp.exit = exitCode(err)
			case <-time.After(overall):
				wp.cmd.Process.Kill()
				<-done
				wp.killed = true
				wp.exit = -1
			}
		}(wp)
	}
	wg.Wait()

	// collect
	total := &WorkerSummary{Counters: map[string]int64{}, SigCounts: map[string]int64{}}
	var found []FoundViolation
	infra := false
	truncated := false
	var samples []any
	fpUnion := map[uint64]struct{}{}
	watchdogExpired, watchdogConfirmed := 0, 0
	type hangItem struct {
		s   *WorkerSummary
		idx int
	}
	var hangs []hangItem
	for _, wp := range procs {
		s, err := readSummary(wp.outFile)
		if wp.killed {
			fmt.Fprintf(os.Stderr, "INFRA: worker %d exceeded the overall wall limit and was killed\n", wp.idx)
			infra = true
		}
		if err != nil {
			fmt.Fprintf(os.Stderr, "INFRA: worker %d left no summary (exit %d): %v\n%s\n", wp.idx, wp.exit, err, tail(wp.stderr.String(), 4000))
			infra = true
			continue
		}
		if wp.exit != 0 && wp.exit != 3 && !s.Done {
			// crashed (e.g. uncaught panic / fatal error in code under test outside recover)
			fmt.Fprintf(os.Stderr, "INFRA: worker %d exited %d without finishing\n%s\n", wp.idx, wp.exit, tail(wp.stderr.String(), 6000))
			infra = true
		}
		total.Runs += s.Runs
		total.Evals += s.Evals
		total.Steps += s.Steps
		for k, v := range s.Counters {
			total.Counters[k] += v
		}
		for k, v := range s.SigCounts {
			total.SigCounts[k] += v
		}
		if s.Truncated {
			truncated = true
		}
		for _, x := range s.Samples {
			if len(samples) < 6 {
				samples = append(samples, x)
			}
		}
		found = append(found, s.Violations...)
		if s.FPFile != "" {
			if b, err := os.ReadFile(s.FPFile); err == nil {
				for i := 0; i+8 <= len(b); i += 8 {
					fpUnion[binary.LittleEndian.Uint64(b[i:])] = struct{}{}
				}
			}
		}
		if s.Hang != nil {
			watchdogExpired++
			truncated = true
			if s.Hang.Phase == "shrink" {
				// a minimisation candidate did not terminate; the unshrunk violation is already recorded
				fmt.Fprintf(os.Stderr, "note: worker %d: a shrink candidate exceeded the run budget; keeping the unshrunk tape\n", wp.idx)
				continue
			}
			hangs = append(hangs, hangItem{s, wp.idx})
		}
	}
	// confirm suspected no-progress runs in fresh processes (first alone, then with the
	// worker's history); a few in parallel are enough to decide, the rest are the same class
	if len(hangs) > 0 {
		const maxConfirm = 3
		n := len(hangs)
		if n > maxConfirm {
			n = maxConfirm
		}
		type conf struct {
			fv *FoundViolation
			ok bool
		}
		res := make([]conf, n)
		var cw sync.WaitGroup
		for i := 0; i < n; i++ {
			cw.Add(1)
			go func(i int) {
				defer cw.Done()
				fv, ok := confirmHang(exe, a, info, spec, hangs[i].s, hangs[i].idx, workers, workDir)
				res[i] = conf{fv, ok}
			}(i)
		}
		cw.Wait()
		for i := 0; i < n; i++ {
			if res[i].ok {
				watchdogConfirmed++
				found = append(found, *res[i].fv)
			}
		}
		if watchdogConfirmed == 0 {
			// the runs terminate when re-executed: the expiry was a load artefact, not a finding. The workers'
			// remaining runs are lost (batch reported as truncated); it is infrastructure trouble only if
			// every worker was lost that way.
			for i := 0; i < n; i++ {
				h := hangs[i].s.Hang
				fmt.Fprintf(os.Stderr, "note: worker %d watchdog fired at run %d (%s) but re-execution in a fresh process finished in time; not a violation\n", hangs[i].idx, h.Run, h.Reason)
			}
			if len(hangs) >= workers {
				infra = true
			}
		} else if len(hangs) > n {
			fmt.Fprintf(os.Stderr, "note: %d further workers hit the watchdog; not re-confirmed individually\n", len(hangs)-n)
		}
	}
	total.Nontrivial = int64(len(fpUnion))

	// supplementary leg
	bctx := &BatchContext{Prop: a.Prop, Tier: a.Tier, Seed: a.Seed, VerifDir: a.VerifDir,
		BuildDir: filepath.Join(a.VerifDir, ".build"), Stats: &Stats{Counters: total.Counters}, ExtraInfo: map[string]any{}}
	var postV []Violation
	if info.PostBatch != nil {
		postV = info.PostBatch(bctx)
		for _, m := range bctx.Infra {
			fmt.Fprintln(os.Stderr, "INFRA:", m)
			infra = true
		}
	}

	// merge by signature: smallest tape wins
	bySig := map[string]*FoundViolation{}
	var sigs []string
	for i := range found {
		fv := &found[i]
		key := fv.Property + "|" + fv.Signature
		if cur, ok := bySig[key]; !ok {
			bySig[key] = fv
			sigs = append(sigs, key)
		} else if len(fv.Tape) < len(cur.Tape) || (len(fv.Tape) == len(cur.Tape) && fv.Run < cur.Run) {
			bySig[key] = fv
		}
	}
	sort.Strings(sigs)

	codeFP := RepoFingerprint(RepoDir())
	nViol := 0
	var knownMatched []string
	var violSummaries []map[string]any
	reported := 0
	for _, key := range sigs {
		fv := bySig[key]
		if _, ok := knownSig[key]; !ok {
			reported++
			if reported > maxReported {
				nViol++
				continue
			}
		}
		if k, ok := knownSig[key]; ok {
			fmt.Printf("KNOWN-FINDING: property=%s %s -- %s (occurrences this run: %d)\n", fv.Property, fv.Signature, k.What, total.SigCounts[key])
			knownMatched = append(knownMatched, fv.Signature)
			continue
		}
		rf := &ReplayFile{Property: fv.Property, Engine: info.Name, Tier: a.Tier, VerifSeed: a.Seed, RunIndex: fv.Run,
			Mode: "tape", Tape: fv.Tape, OrigTape: fv.OrigTape, Expected: fv.Violation, Shrunk: fv.Shrunk, CodeFingerprint: codeFP}
		if fv.Kind == "no-progress" {
			rf.Mode = "history"
			rf.Worker, rf.Workers, rf.Runs, rf.BudgetMs = int(fv.Run%int64(workers)), workers, spec.Runs, spec.RunBudgetMs*3
			rf.ReplayedOK = true // confirmed by confirmHang in a fresh process
		} else {
			// replay the (shrunk) tape in a fresh process before reporting it
			path := replayPath(a.VerifDir, rf)
			writeJSONAtomic(path, rf)
			ok := replayInFreshProcess(exe, path, spec)
			if !ok && fv.Shrunk && fv.OrigTape != nil {
				os.Remove(path)
				rf.Tape, rf.OrigTape, rf.Shrunk = fv.OrigTape, nil, false
				path = replayPath(a.VerifDir, rf)
				writeJSONAtomic(path, rf)
				ok = replayInFreshProcess(exe, path, spec)
			}
			rf.ReplayedOK = ok
			os.Remove(path)
		}
		path := replayPath(a.VerifDir, rf)
		if err := writeJSONIndent(path, rf); err != nil {
			fmt.Fprintf(os.Stderr, "cannot write replay file: %v\n", err)
			infra = true
		}
		nViol++
		fmt.Printf("VIOLATION property=%s replay=%s\n", fv.Property, path)
		fmt.Printf("  kind=%s signature=%s occurrences=%d run=%d tape_len=%d shrunk=%v replayed_in_fresh_process=%v\n  %s\n",
			fv.Kind, fv.Signature, total.SigCounts[key], fv.Run, len(rf.Tape), rf.Shrunk, rf.ReplayedOK, firstLines(fv.Detail, 12))
		violSummaries = append(violSummaries, map[string]any{"kind": fv.Kind, "signature": fv.Signature, "replay": path, "detail": firstLines(fv.Detail, 6)})
	}
	if reported > maxReported {
		fmt.Printf("... and %d further distinct violation signatures (not written out; fix the first ones and re-run)\n", reported-maxReported)
	}
	for _, v := range postV {
		key := v.Property + "|" + v.Signature
		if k, ok := knownSig[key]; ok {
			fmt.Printf("KNOWN-FINDING: property=%s %s -- %s\n", v.Property, v.Signature, k.What)
			knownMatched = append(knownMatched, v.Signature)
			continue
		}
		rf := &ReplayFile{Property: v.Property, Engine: info.Name, Tier: a.Tier, VerifSeed: a.Seed, Mode: "parallel-leg", Expected: v, CodeFingerprint: codeFP}
		path := replayPath(a.VerifDir, rf)
		writeJSONIndent(path, rf)
		nViol++
		fmt.Printf("VIOLATION property=%s replay=%s\n  kind=%s signature=%s\n  %s\n", v.Property, path, v.Kind, v.Signature, firstLines(v.Detail, 30))
		violSummaries = append(violSummaries, map[string]any{"kind": v.Kind, "signature": v.Signature, "replay": path})
	}

	wall := time.Since(t0).Seconds()
	// evidence
	faults := map[string]int64{}
	probes := map[string]int64{}
	other := map[string]int64{}
	for _, k := range SortedKeys(total.Counters) {
		v := total.Counters[k]
		switch {
		case strings.HasPrefix(k, "fault."):
			faults[strings.TrimPrefix(k, "fault.")] = v
		case strings.HasPrefix(k, "probe."):
			probes[strings.TrimPrefix(k, "probe.")] = v
		default:
			other[k] = v
		}
	}
	var zeroProbes []string
	for _, p := range info.RequiredProbes[a.Prop] {
		if total.Counters[p] == 0 {
			zeroProbes = append(zeroProbes, p)
		}
	}
	if len(samples) == 0 {
		samples = append(samples, "no sample recorded")
	}
	cov := map[string]any{
		"evaluations":         total.Evals,
		"distinct_nontrivial": total.Nontrivial,
		"rule":                info.Rule,
		"samples":             samples,
		"exhaustive":          false,
		"simulated_runs":      total.Runs,
		"runs_per_hour":       int64(float64(total.Runs) / wall * 3600),
		"logical_steps":       total.Steps,
		"simulated_time":      "xjs has no clock or timer; simulated time is reported as logical steps (callbacks, yields, operations, fault cases)",
		"faults_fired":        faults,
		"probes":              probes,
		"counters":            other,
		"zero_required_probes": zeroProbes,
		"real_components":     info.Real,
		"simulated_components": info.Simulated,
		"oracle_components":   info.Oracles,
		"workers":             workers,
		"truncated_by_wall_cap": truncated,
		"watchdog":            map[string]int{"expired": watchdogExpired, "confirmed": watchdogConfirmed},
		"known_findings_matched": knownMatched,
		"violations_found":    violSummaries,
		"code_fingerprint":    codeFP,
		"seeds":               fmt.Sprintf("VERIF_SEED=%d; per-run seed = hash(VERIF_SEED, property, engine, run index), run indexes 0..%d", a.Seed, spec.Runs-1),
	}
	for k, v := range bctx.ExtraInfo {
		cov[k] = v
	}
	ev := &Evidence{PropertyID: a.Prop, Tier: a.Tier, Seed: a.Seed, Level: info.Level, Coverage: cov,
		Assumptions: info.Assume, WallS: wall, Violations: nViol}
	if !infra {
		if err := writeJSONIndent(filepath.Join(evidenceDir(a.VerifDir), a.Prop+".json"), ev); err != nil {
			fmt.Fprintf(os.Stderr, "cannot write evidence: %v\n", err)
			infra = true
		}
		if a.Tier == "thorough" {
			// kept beside the per-run file, which the next quick run overwrites
			writeJSONIndent(filepath.Join(evidenceDir(a.VerifDir), a.Prop+".thorough.json"), ev)
		}
	}
	fmt.Printf("summary property=%s runs=%d evaluations=%d distinct_nontrivial=%d steps=%d violations=%d known=%d wall=%.1fs truncated=%v\n",
		a.Prop, total.Runs, total.Evals, total.Nontrivial, total.Steps, nViol, len(knownMatched), wall, truncated)
	if len(zeroProbes) > 0 {
		fmt.Printf("warning: required probes at zero: %v\n", zeroProbes)
	}
	if nViol > 0 {
		return 1
	}
	if infra {
		fmt.Fprintln(os.Stderr, "INFRA trouble: exit 2 (not a verdict)")
		return 2
	}
	if total.Runs == 0 {
		fmt.Fprintln(os.Stderr, "INFRA: no runs executed")
		return 2
	}
	return 0
}

func confirmHang(exe string, a CheckArgs, info *EngineInfo, spec TierSpec, s *WorkerSummary, idx, workers int, workDir string) (*FoundViolation, bool) {
	h := s.Hang
	spec2 := spec
	spec2.RunBudgetMs = spec.RunBudgetMs * 3
	spec2.ShrinkSecs = 0
	spec2.WallSeconds = 0
	try := func(extra ...string) (bool, *WorkerSummary) {
		out := filepath.Join(workDir, fmt.Sprintf("confirm-w%d-%d.json", idx, time.Now().UnixNano()))
		wp := spawnWorker(exe, a, info, spec2, idx, workers, out, extra...)
		if err := wp.cmd.Start(); err != nil {
			return false, nil
		}
		done := make(chan error, 1)
		go func() { done <- wp.cmd.Wait() }()
		limit := time.Duration(spec2.RunBudgetMs)*time.Millisecond*2 + time.Duration(s.WallS*3+30)*time.Second
		select {
		case err := <-done:
			cs, _ := readSummary(out)
			return exitCode(err) == 3 && cs != nil && cs.Hang != nil && cs.Hang.Run == h.Run, cs
		case <-time.After(limit):
			wp.cmd.Process.Kill()
			<-done
			return false, nil
		}
	}
	mode := "alone"
	ok, _ := try("-only", strconv.FormatInt(h.Run, 10))
	if !ok {
		mode = "with-history"
		ok, _ = try("-until", strconv.FormatInt(h.Run, 10))
	}
	if !ok {
		return nil, false
	}
	sig := "no-progress"
	fv := &FoundViolation{
		Violation: Violation{Property: a.Prop, Kind: "no-progress", Signature: sig,
			Detail: fmt.Sprintf("run %d did not finish within %d ms (watchdog reason: %s), confirmed on re-execution in a fresh process (%s) with a 3x budget; xjs has no blocking call, so this is a loop that makes no progress",
				h.Run, spec.RunBudgetMs, h.Reason, mode)},
		Run: h.Run, Tape: h.Tape,
	}
	return fv, true
}

func replayInFreshProcess(exe, path string, spec TierSpec) bool {
	cmd := exec.Command(exe, "replay", path)
	cmd.Env = append(os.Environ(), "GOMAXPROCS=2", "VERIFSIM_CHILD=1")
	done := make(chan error, 1)
	if err := cmd.Start(); err != nil {
		return false
	}
	go func() { done <- cmd.Wait() }()
	select {
	case err := <-done:
		return exitCode(err) == 1
	case <-time.After(time.Duration(spec.RunBudgetMs)*time.Millisecond*3 + 60*time.Second):
		cmd.Process.Kill()
		<-done
		return false
	}
}

// Replay re-executes a replay file; exit 1 + VIOLATION line when the same
// violation (property, signature) is reproduced, exit 0 when the run is clean.
func Replay(path string, verifDir string) int {
	b, err := os.ReadFile(path)
	if err != nil {
		fmt.Fprintln(os.Stderr, err)
		return 2
	}
	rf := &ReplayFile{}
	if err := json.Unmarshal(b, rf); err != nil {
		fmt.Fprintln(os.Stderr, err)
		return 2
	}
	info := EngineByName(rf.Engine)
	if info == nil {
		fmt.Fprintf(os.Stderr, "unknown engine %q\n", rf.Engine)
		return 2
	}
	switch rf.Mode {
	case "history":
		// no-progress: re-run the worker's history up to the run, expect the watchdog again
		exe, _ := os.Executable()
		spec := info.Tier(rf.Property, rf.Tier)
		spec.Runs = rf.Runs
		spec.RunBudgetMs = rf.BudgetMs
		spec.ShrinkSecs, spec.WallSeconds = 0, 0
		tmp, _ := os.MkdirTemp(filepath.Join(verifDir, ".build"), "replay")
		defer os.RemoveAll(tmp)
		out := filepath.Join(tmp, "w.json")
		wp := spawnWorker(exe, CheckArgs{Prop: rf.Property, Tier: rf.Tier, Seed: rf.VerifSeed, VerifDir: verifDir}, info, spec, rf.Worker, rf.Workers, out, "-until", strconv.FormatInt(rf.RunIndex, 10))
		err := wp.cmd.Run()
		cs, _ := readSummary(out)
		if exitCode(err) == 3 && cs != nil && cs.Hang != nil {
			fmt.Printf("VIOLATION property=%s replay=%s\n  reproduced: run %d made no progress within %d ms\n", rf.Property, path, cs.Hang.Run, rf.BudgetMs)
			return 1
		}
		fmt.Printf("replay: not reproduced (history finished in time)\n")
		return 0
	case "parallel-leg":
		fmt.Printf("replay: parallel-leg findings are re-run by the check itself (best effort); expected: %s\n", rf.Expected.Detail)
		return 0
	}
	eng := info.New(rf.Tier)
	defer eng.Close()
	spec := info.Tier(rf.Property, rf.Tier)
	// watchdog for the replay itself
	doneCh := make(chan RunResult, 1)
	go func() {
		doneCh <- eng.Run(rf.Property, NewReplayChooser(rf.Tape), NewStats())
	}()
	var res RunResult
	select {
	case res = <-doneCh:
	case <-time.After(time.Duration(spec.RunBudgetMs) * time.Millisecond * 3):
		fmt.Printf("VIOLATION property=%s replay=%s\n  replay did not terminate within %d ms (no-progress)\n", rf.Property, path, spec.RunBudgetMs*3)
		return 1
	}
	for _, v := range res.Violations {
		if v.Property == rf.Property && v.Signature == rf.Expected.Signature {
			same := v.Detail == rf.Expected.Detail
			fmt.Printf("VIOLATION property=%s replay=%s\n  reproduced kind=%s signature=%s identical_detail=%v\n  %s\n", rf.Property, path, v.Kind, v.Signature, same, firstLines(v.Detail, 40))
			return 1
		}
	}
	fmt.Printf("replay: not reproduced (%d other violations)\n", len(res.Violations))
	for _, v := range res.Violations {
		fmt.Printf("  other: property=%s kind=%s signature=%s\n", v.Property, v.Kind, v.Signature)
	}
	return 0
}

func exitCode(err error) int {
	if err == nil {
		return 0
	}
	if ee, ok := err.(*exec.ExitError); ok {
		return ee.ExitCode()
	}
	return -1
}

func writeJSONIndent(path string, v any) error {
	b, err := json.MarshalIndent(v, "", " ")
	if err != nil {
		return err
	}
	return os.WriteFile(path, append(b, '\n'), 0o644)
}

func tail(s string, n int) string {
	if len(s) <= n {
		return s
	}
	return "..." + s[len(s)-n:]
}

func firstLines(s string, n int) string {
	lines := strings.Split(s, "\n")
	if len(lines) > n {
		lines = append(lines[:n], fmt.Sprintf("... (%d more lines)", len(lines)-n))
	}
	return strings.Join(lines, "\n  ")
}
