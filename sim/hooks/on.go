//go:build verif

package hooks

import "github.com/xjslang/xjs/simhook"

func init() {
	Active = true
	simhook.Yield = func(site int) {
		bump(site)
		if OnPoint != nil {
			OnPoint(site)
		}
	}
}
