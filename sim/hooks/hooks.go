// Package hooks owns /repo's guarded yield points (github.com/xjslang/xjs/simhook,
// build tag verif) on behalf of all engines: it counts every point and forwards
// it to the one engine that schedules on them (worldsim).
package hooks

import "sync/atomic"

// Sites mirror simhook's constants.
const (
	LexerNextToken = iota
	ParserNextToken
	WriterWrite
	CompileBegin
	CompileEnd
	NumSites
)

var (
	// Active is true when the binary was built with the verif tag.
	Active bool
	// counts[site] is the number of times the point was passed in this process
	// (atomic: the supplementary -race leg passes points on 16 goroutines).
	counts [NumSites]atomic.Int64
	// OnPoint, when set, is called at every point after counting.
	OnPoint func(site int)
)

// Count returns how often a point was passed so far.
func Count(site int) int64 { return counts[site].Load() }

func bump(site int) {
	if site >= 0 && site < NumSites {
		counts[site].Add(1)
	}
}
