// Package gen is the workload generator with ground truth: it produces valid
// programs of the xjs subset (valid JavaScript by construction, conservative
// about ASI and token fusion) together with what the claimed properties need
// and cannot take from xjs itself: the token list with byte offsets and roles,
// statement boundaries and separators, and the nesting context of every token.
// It is not an oracle for parsing (that would be property C02).
package gen

import (
	"strings"

	"verifsim/kernel"
)

// Context kinds (generator side).
const (
	CtxGlobal = 0
	CtxFunc   = 1 // directly inside a function body
	CtxBlock  = 2 // inside a block statement
)

type Tok struct {
	Text       string `json:"text"`
	Start      int    `json:"start"` // byte offsets [Start,End)
	End        int    `json:"end"`
	Line       int    `json:"line"` // 0-based line/column (bytes) of Start
	Col        int    `json:"col"`
	Role       string `json:"role"`
	Stmt       int    `json:"stmt"`       // innermost statement id
	FirstOfStmt bool  `json:"first"`      // first token of statement Stmt
	InFunc     bool   `json:"in_func"`    // some enclosing brace pair is a function body
	Ctx        int    `json:"ctx"`        // innermost statement-list context
	Depth      int    `json:"depth"`      // open ( [ { at this token (before it)
	CtxDepth   int    `json:"ctx_depth"`  // number of enclosing function bodies + blocks
}

type Stmt struct {
	Kind   string `json:"kind"`
	First  int    `json:"first"` // token index
	Last   int    `json:"last"`
	Parent int    `json:"parent"` // statement id or -1
}

// Sep is a resolved statement separator: the gap between the last token of one
// statement and the first token of the next one in the same statement list.
type Sep struct {
	PrevTok  int `json:"prev_tok"` // last token of the statement before the gap (not the ';')
	NextTok  int `json:"next_tok"` // first token of the next statement
	GapStart int `json:"gap_start"`
	GapEnd   int `json:"gap_end"`
}

type Program struct {
	Text  string
	Toks  []Tok
	Stmts []Stmt
	Seps  []Sep
	// StmtStarts: token indexes at which the parser begins a statement step, in
	// parse (= token) order.
	StmtStarts []int
	MaxCtxDepth int
	Features map[string]int
}

type Config struct {
	MaxTokens  int // soft budget
	MaxStmts   int // top-level statements
	MinStmts   int // at least this many top-level statements (0: no lower bound), token budget permitting
	MaxDepth   int // expression depth
	MaxNest    int // statement nesting
	Comments   bool
	Multibyte  bool
	FuncHeavy  bool // bias towards nested functions and blocks (C16)
	// DeepNest > 0: one chain of nested blocks / function declarations / function expressions is forced
	// down to this many statement-list contexts, with a statement before and after each nested construct
	DeepNest int
	// DeepBlocksFirst: the outermost levels of the forced chain (context depth below this) are plain blocks;
	// DeepFuncsFirst: they are functions, and every level below is a block
	DeepBlocksFirst, DeepFuncsFirst int
}

var idents = []string{"a", "b", "c", "x", "y", "foo", "bar", "done", "index", "value", "item", "obj", "arr", "fn", "n", "i", "tmp", "result", "count",
	"form", "iffy", "newer", "letter", "variable", "inner", "doit", "trying", "classy", "thisOne", "voided", "_p", "$q", "data2", "elseWhere", "returned", "functional", "whileTrue", "nullish", "trueish", "falsey"}

var numbers = []string{"0", "1", "2", "42", "7", "100", "3.14", "0.5", "1e3", "2.5e-3", "1E+2", "0x1F", "0XaB", "0b101", "0o17", "9007199254740991", "10.25"}

var binOps = []struct {
	op   string
	prec int
}{
	{"||", 3}, {"&&", 4}, {"==", 5}, {"!=", 5}, {"<", 6}, {">", 6}, {"<=", 6}, {">=", 6},
	{"+", 7}, {"-", 7}, {"*", 8}, {"/", 8}, {"%", 8},
}

type emitter struct {
	ch    *kernel.Chooser
	cfg   Config
	sb    strings.Builder
	toks  []Tok
	stmts []Stmt
	seps  []Sep
	line, col int
	// pending statement separator
	pendingSep  bool
	sepPrevTok  int
	ctx         []int // stack of CtxFunc / CtxBlock
	depth       int
	curStmt     int
	stmtFirst   bool
	starts      []int
	maxCtx      int
	feat        map[string]int
	nlOK        bool // a newline (or comment) may precede the next token inside a statement
	chainDone   bool // DeepNest: the forced chain reached its depth
	forceSemi   bool // the pending separator must be an explicit ';' (after a bare `return`: xjs reads a value across the line break)
}

func (e *emitter) write(s string) {
	e.sb.WriteString(s)
	for i := 0; i < len(s); i++ {
		if s[i] == '\n' {
			e.line++
			e.col = 0
		} else {
			e.col++
		}
	}
}

var glueSet = map[string]bool{"(": true, ")": true, "[": true, "]": true, "{": true, "}": true, ",": true, ";": true, ":": true, ".": true}

// risky first tokens after a newline-only separator (JS or xjs would continue the previous statement)
func riskyStart(t string) bool {
	switch t {
	case "(", "[", "+", "-", "++", "--", "/", "*", "%", ".", ",", "=", "+=", "-=", "==", "!=", "<", ">", "<=", ">=", "&&", "||":
		return true
	}
	return len(t) > 0 && t[0] == '`'
}

var commentWords = []string{" note", " TODO: fix", "", " x = 1;", " été", "// nested", " }", " \"q", " trailing  ",
	// comments that tools give a meaning to: to xjs they are comments like any other
	"# sourceMappingURL=out.js.map", "@ sourceURL=a.js", "! keep", "/ <reference path=\"x\" />", " eslint-disable-next-line", " @ts-ignore", "#region", " prettier-ignore"}

func (e *emitter) comment() string {
	c := commentWords[e.ch.Choose(len(commentWords))]
	if !e.cfg.Multibyte && !isASCII(c) {
		c = " c"
	}
	return "//" + c + "\n"
}

func isASCII(s string) bool {
	for i := 0; i < len(s); i++ {
		if s[i] >= 0x80 {
			return false
		}
	}
	return true
}

func (e *emitter) ws() string {
	switch e.ch.Weighted(8, 2, 1) {
	case 0:
		return " "
	case 1:
		return "  "
	default:
		return "\t"
	}
}

// gap decides the text between the previous token and the token about to be emitted.
func (e *emitter) gap(text string) {
	ch := e.ch
	if len(e.toks) == 0 {
		// leading layout
		switch ch.Weighted(8, 1, 1) {
		case 1:
			e.write("\n")
		case 2:
			if e.cfg.Comments {
				e.write(e.comment())
			}
		}
		return
	}
	prev := e.toks[len(e.toks)-1].Text
	if e.pendingSep {
		e.pendingSep = false
		gapStart := e.sb.Len()
		closing := text == "}" // end of the enclosing statement list
		needSemi := riskyStart(text) || e.forceSemi
		e.forceSemi = false
		// options: 0 ";" + ws/newline, 1 newline only, 2 nothing/space (only before a closing brace)
		opt := 0
		if closing {
			opt = ch.Weighted(3, 2, 3)
		} else if !needSemi {
			opt = ch.Weighted(5, 4)
		}
		switch opt {
		case 0:
			if ch.Bool(1, 6) {
				e.write(e.ws())
			}
			// the ';' is a real token
			e.addTok(";", "sep.;")
			switch ch.Weighted(5, 4, 2, 1) {
			case 0:
				e.write(" ")
			case 1:
				e.write("\n")
				e.indent()
			case 2:
				if closing || text == "else" {
					e.write(" ")
				} else {
					e.write("")
					if !glueOK(";", text) {
						e.write(" ")
					}
				}
			case 3:
				if e.cfg.Comments {
					e.write(" " + e.comment())
				} else {
					e.write("\n")
				}
			}
		case 1:
			if e.cfg.Comments && ch.Bool(1, 5) {
				e.write(" " + e.comment())
			} else {
				e.write("\n")
			}
			if ch.Bool(1, 8) {
				e.write("\n")
			}
			e.indent()
		case 2:
			if ch.Bool(1, 2) {
				e.write(" ")
			}
		}
		if !closing && text != "else" {
			e.seps = append(e.seps, Sep{PrevTok: e.sepPrevTok, NextTok: len(e.toks), GapStart: e.toks[e.sepPrevTok].End, GapEnd: e.sb.Len()})
		}
		_ = gapStart
		return
	}
	nl := e.nlOK
	e.nlOK = false
	if nl && ch.Bool(1, 10) {
		if e.cfg.Comments && ch.Bool(1, 3) {
			e.write(" " + e.comment())
		} else {
			e.write("\n")
		}
		e.indent()
		return
	}
	if glueOK(prev, text) {
		switch ch.Weighted(6, 3) {
		case 0:
			// touching
		case 1:
			e.write(" ")
		}
		return
	}
	e.write(e.ws())
}

func (e *emitter) indent() {
	n := e.ch.Choose(3) * len(e.ctx)
	for i := 0; i < n; i++ {
		e.write(" ")
	}
}

// glueOK: the two token texts may touch without fusing or changing meaning.
func glueOK(a, b string) bool {
	if !(glueSet[a] || glueSet[b]) {
		return false
	}
	// digits next to '.' would fuse into a number
	if a == "." && len(b) > 0 && b[0] >= '0' && b[0] <= '9' {
		return false
	}
	if b == "." && len(a) > 0 && a[len(a)-1] >= '0' && a[len(a)-1] <= '9' {
		return false
	}
	return true
}

func (e *emitter) addTok(text, role string) {
	t := Tok{Text: text, Start: e.sb.Len(), Line: e.line, Col: e.col, Role: role, Stmt: e.curStmt, Depth: e.depth, CtxDepth: len(e.ctx)}
	for _, c := range e.ctx {
		if c == CtxFunc {
			t.InFunc = true
		}
	}
	if len(e.ctx) > 0 {
		t.Ctx = e.ctx[len(e.ctx)-1]
	}
	if e.stmtFirst && role != "sep.;" {
		t.FirstOfStmt = true
		e.stmtFirst = false
	}
	e.write(text)
	t.End = e.sb.Len()
	e.toks = append(e.toks, t)
}

func (e *emitter) tok(text, role string) {
	e.gap(text)
	e.addTok(text, role)
	switch text {
	case "(", "[", "{":
		e.depth++
	case ")", "]", "}":
		e.depth--
	}
}

// nl marks that a line break or comment may precede the next token.
func (e *emitter) nl() { e.nlOK = true }

func (e *emitter) budgetLeft() bool { return len(e.toks) < e.cfg.MaxTokens }

// ---- statements -------------------------------------------------------------

func (e *emitter) beginStmt(kind string, parent int) int {
	id := len(e.stmts)
	e.stmts = append(e.stmts, Stmt{Kind: kind, First: -1, Last: -1, Parent: parent})
	e.curStmt = id
	e.stmtFirst = true
	return id
}

func (e *emitter) endStmt(id, firstTok int, needsSep bool) {
	e.stmts[id].First = firstTok
	e.stmts[id].Last = len(e.toks) - 1
	if needsSep {
		e.pendingSep = true
		e.sepPrevTok = len(e.toks) - 1
	}
	e.curStmt = e.stmts[id].Parent
}

func (e *emitter) inFunc() bool {
	for _, c := range e.ctx {
		if c == CtxFunc {
			return true
		}
	}
	return false
}

func (e *emitter) stmtList(parent, nest, n int) {
	for i := 0; i < n; i++ {
		if !e.budgetLeft() && i > 0 {
			break
		}
		e.stmt(parent, nest)
	}
}

func (e *emitter) stmt(parent, nest int) { e.stmtK(parent, nest, -1) }

// stmtK emits a statement of the given kind (-1: seeded choice).
func (e *emitter) stmtK(parent, nest, forced int) {
	ch := e.ch
	// weights: expr, let, if, while, for, block, funcdecl, return
	w := []int{10, 7, 3, 2, 2, 2, 3, 0}
	if e.cfg.FuncHeavy {
		w = []int{6, 4, 4, 2, 2, 5, 7, 0}
	}
	if nest >= e.cfg.MaxNest || !e.budgetLeft() {
		w[2], w[3], w[4], w[5], w[6] = 0, 0, 0, 0, 0
	}
	if e.inFunc() {
		w[7] = 4
	}
	kind := forced
	if kind < 0 {
		kind = ch.Weighted(w...)
	}
	first := len(e.toks)
	if e.pendingSep {
		// the ';' token (if chosen) is emitted by gap() before the statement's first token
	}
	switch kind {
	case 0:
		id := e.beginStmt("expr", parent)
		e.starts = append(e.starts, -1) // patched below
		si := len(e.starts) - 1
		e.expr(2, 0, true)
		e.patchStart(si, id, &first)
		e.endStmt(id, first, true)
	case 1:
		id := e.beginStmt("let", parent)
		si := e.markStart()
		e.tok("let", "let")
		e.tok(e.ident(), "let.name")
		if ch.Bool(4, 5) {
			e.tok("=", "let.=")
			e.nl()
			e.expr(2, 0, false)
		}
		e.patchStart(si, id, &first)
		e.endStmt(id, first, true)
		e.feat["let"]++
	case 2:
		id := e.beginStmt("if", parent)
		si := e.markStart()
		e.tok("if", "if")
		e.tok("(", "if.(")
		e.expr(2, 0, false)
		e.tok(")", "if.)")
		e.nl()
		e.body(id, nest)
		if ch.Bool(2, 5) {
			e.tok("else", "else")
			if ch.Bool(1, 3) && nest+1 < e.cfg.MaxNest {
				e.feat["else_if"]++
				e.stmtOfKind(id, nest+1, 2)
			} else {
				e.nl()
				e.body(id, nest)
			}
		}
		e.patchStart(si, id, &first)
		e.endStmt(id, first, false)
	case 3:
		id := e.beginStmt("while", parent)
		si := e.markStart()
		e.tok("while", "while")
		e.tok("(", "while.(")
		e.expr(2, 0, false)
		e.tok(")", "while.)")
		e.nl()
		e.body(id, nest)
		e.patchStart(si, id, &first)
		e.endStmt(id, first, false)
	case 4:
		id := e.beginStmt("for", parent)
		si := e.markStart()
		e.tok("for", "for")
		e.tok("(", "for.(")
		switch ch.Weighted(5, 3, 2) {
		case 0:
			e.tok("let", "for.let")
			e.tok(e.ident(), "for.let.name")
			if ch.Bool(5, 6) {
				e.tok("=", "for.let.=")
				e.expr(2, 0, false)
			}
		case 1:
			e.expr(2, 0, false)
		}
		e.tok(";", "for.;1")
		e.nl() // a header may be wrapped over several lines: no semicolon insertion inside it
		if ch.Bool(4, 5) {
			e.expr(2, 0, false)
		}
		e.tok(";", "for.;2")
		e.nl()
		if ch.Bool(4, 5) {
			e.expr(2, 0, false)
		}
		e.tok(")", "for.)")
		e.nl()
		e.body(id, nest)
		e.patchStart(si, id, &first)
		e.endStmt(id, first, false)
		e.feat["for"]++
	case 5:
		id := e.beginStmt("block", parent)
		si := e.markStart()
		e.block(id, nest, CtxBlock, "blk.{", "blk.}")
		e.patchStart(si, id, &first)
		e.endStmt(id, first, false)
	case 6:
		id := e.beginStmt("funcdecl", parent)
		si := e.markStart()
		e.tok("function", "fn.kw")
		e.tok(e.ident(), "fn.name")
		e.params("fn")
		e.block(id, nest, CtxFunc, "fn.{", "fn.}")
		e.patchStart(si, id, &first)
		e.endStmt(id, first, false)
		e.feat["funcdecl"]++
	case 7:
		id := e.beginStmt("return", parent)
		si := e.markStart()
		e.tok("return", "ret")
		bare := !ch.Bool(3, 4)
		if !bare {
			e.expr(2, 0, false)
		}
		e.patchStart(si, id, &first)
		e.endStmt(id, first, true)
		e.forceSemi = bare
		e.feat["return"]++
	}
}

// deepChain: [simple statement] nesting construct [simple statement] — the nesting construct's
// own statement list continues the chain.
func (e *emitter) deepChain(parent, nest int) {
	ch := e.ch
	simple := func() {
		saveDepth := e.cfg.MaxDepth
		e.cfg.MaxDepth = 1
		e.stmtK(parent, 1<<20, ch.Weighted(1, 1)) // expression or let; nest beyond MaxNest: no nesting inside
		e.cfg.MaxDepth = saveDepth
	}
	if ch.Bool(2, 3) {
		simple()
	}
	kind := ch.Weighted(3, 4, 3)
	if len(e.ctx) < e.cfg.DeepBlocksFirst {
		kind = 0
	} else if len(e.ctx) < e.cfg.DeepFuncsFirst {
		kind = 1 + ch.Choose(2)
	} else if e.cfg.DeepFuncsFirst > 0 {
		kind = 0
	}
	switch kind {
	case 0:
		e.stmtK(parent, nest, 5) // block
	case 1:
		e.stmtK(parent, nest, 6) // function declaration
	default:
		// function expression as initialiser: let f = function () { ... }
		first := len(e.toks)
		id := e.beginStmt("let", parent)
		si := e.markStart()
		e.tok("let", "let")
		e.tok(e.ident(), "let.name")
		e.tok("=", "let.=")
		e.funcExpr(0)
		e.patchStart(si, id, &first)
		e.endStmt(id, first, true)
	}
	if ch.Bool(2, 3) {
		simple()
	}
}

// stmtOfKind emits an `if` statement directly (for else-if chains).
func (e *emitter) stmtOfKind(parent, nest, kind int) {
	ch := e.ch
	first := len(e.toks)
	id := e.beginStmt("if", parent)
	si := e.markStart()
	e.tok("if", "if")
	e.tok("(", "if.(")
	e.expr(2, 0, false)
	e.tok(")", "if.)")
	e.body(id, nest)
	if ch.Bool(1, 3) {
		e.tok("else", "else")
		e.body(id, nest)
	}
	e.patchStart(si, id, &first)
	e.endStmt(id, first, false)
}

func (e *emitter) markStart() int {
	e.starts = append(e.starts, -1)
	return len(e.starts) - 1
}

// patchStart records the index of the statement's first token (known only
// after a pending ';' separator, which precedes it, has been emitted).
func (e *emitter) patchStart(si, id int, first *int) {
	// first token of the statement = first token at or after *first that is not a separator ';' emitted by gap
	f := *first
	for f < len(e.toks) && e.toks[f].Role == "sep.;" && !e.toks[f].FirstOfStmt {
		f++
	}
	*first = f
	e.starts[si] = f
}

// body: the body of if/while/for: a block or a single statement.
func (e *emitter) body(parent, nest int) {
	if e.ch.Bool(3, 5) {
		first := len(e.toks)
		id := e.beginStmt("block", parent)
		si := e.markStart()
		e.block(id, nest, CtxBlock, "blk.{", "blk.}")
		e.patchStart(si, id, &first)
		e.endStmt(id, first, false)
		return
	}
	// single statement body: expression, let is not allowed in JS here; keep to expr / return / nested control
	first := len(e.toks)
	switch e.ch.Weighted(6, 2) {
	case 0:
		id := e.beginStmt("expr", parent)
		si := e.markStart()
		e.expr(2, 0, true)
		e.patchStart(si, id, &first)
		e.endStmt(id, first, true)
	case 1:
		if e.inFunc() {
			id := e.beginStmt("return", parent)
			si := e.markStart()
			e.tok("return", "ret")
			bare := !e.ch.Bool(3, 4)
			if !bare {
				e.expr(2, 0, false)
			}
			e.patchStart(si, id, &first)
			e.endStmt(id, first, true)
			e.forceSemi = bare
		} else {
			id := e.beginStmt("expr", parent)
			si := e.markStart()
			e.expr(2, 0, true)
			e.patchStart(si, id, &first)
			e.endStmt(id, first, true)
		}
	}
}

func (e *emitter) block(parent, nest, ctx int, open, close string) {
	e.tok("{", open)
	e.ctx = append(e.ctx, ctx)
	if len(e.ctx) > e.maxCtx {
		e.maxCtx = len(e.ctx)
	}
	e.nl()
	n := e.ch.Weighted(2, 5, 4, 2)
	saved := e.curStmt
	if e.cfg.DeepNest > 0 && len(e.ctx) < e.cfg.DeepNest && !e.chainDone {
		e.deepChain(parent, nest+1)
	} else {
		if e.cfg.DeepNest > 0 {
			e.chainDone = true
		}
		e.stmtList(parent, nest+1, n)
	}
	e.curStmt = saved
	e.ctx = e.ctx[:len(e.ctx)-1]
	// closing brace: gap() resolves a pending separator knowing the next token is '}'
	e.tok("}", close)
	e.pendingSep = false
}

func (e *emitter) params(prefix string) {
	e.tok("(", prefix+".(")
	n := e.ch.Weighted(3, 4, 2, 1)
	for i := 0; i < n; i++ {
		if i > 0 {
			e.tok(",", prefix+".,")
		}
		e.tok(e.ident(), prefix+".param")
	}
	e.tok(")", prefix+".)")
}

func (e *emitter) ident() string { return idents[e.ch.Choose(len(idents))] }

// ---- expressions ------------------------------------------------------------

// expr emits an expression whose precedence is at least minPrec (wrapping in
// explicit parentheses otherwise). stmtStart: the expression's first token is
// the first token of an expression statement (must not be `{` or `function`).
func (e *emitter) expr(minPrec, depth int, stmtStart bool) {
	ch := e.ch
	leafOnly := depth >= e.cfg.MaxDepth || !e.budgetLeft()
	// forms: 0 ident 1 number 2 string 3 kwlit 4 template
	//        5 binary 6 unary 7 postfix 8 call 9 member 10 index 11 group 12 array 13 object 14 funcexpr 15 assign
	w := []int{10, 5, 3, 2, 1, 9, 3, 2, 6, 5, 2, 2, 2, 2, 2, 4}
	if e.cfg.FuncHeavy {
		w[14] = 6
		w[8] = 8
	}
	if leafOnly {
		for i := 5; i < len(w); i++ {
			w[i] = 0
		}
	}
	form := ch.Weighted(w...)
	prec := 13
	switch form {
	case 5:
		prec = -1 // decided below
	case 6:
		prec = 9
	case 7:
		prec = 10
	case 8, 9, 10:
		prec = 12
	case 15:
		prec = 2
	}
	var bop struct {
		op   string
		prec int
	}
	if form == 5 {
		bop = binOps[ch.Choose(len(binOps))]
		prec = bop.prec
	}
	wrap := prec < minPrec
	if stmtStart && !wrap && (form == 13 || form == 14) {
		wrap = true
	}
	if wrap {
		e.tok("(", "grp.(")
		e.nl()
		stmtStart = false
		e.feat["group_forced"]++
	}
	switch form {
	case 0:
		e.tok(e.ident(), "id")
	case 1:
		e.tok(numbers[ch.Choose(len(numbers))], "num")
	case 2:
		e.tok(e.stringLit(), "str")
	case 3:
		e.tok([]string{"true", "false", "null"}[ch.Choose(3)], "kwlit")
	case 4:
		e.tok(e.templateLit(), "tpl")
	case 5:
		e.expr(bop.prec, depth+1, stmtStart)
		if ch.Bool(1, 3) {
			e.nl() // a line break or a trailing comment may also precede a binary operator: the expression continues
		}
		e.tok(bop.op, "bin.op")
		e.nl()
		e.expr(bop.prec+1, depth+1, false)
		e.feat["binary"]++
	case 6:
		op := []string{"-", "!", "++", "--"}[ch.Weighted(4, 4, 1, 1)]
		e.tok(op, "un.op")
		if op == "++" || op == "--" {
			e.lvalue(depth+1, false)
		} else {
			e.expr(9, depth+1, false)
		}
		e.feat["unary"]++
	case 7:
		e.lvalue(depth+1, stmtStart)
		e.tok([]string{"++", "--"}[ch.Choose(2)], "post.op")
		e.feat["postfix"]++
	case 8:
		e.callee(depth+1, stmtStart)
		e.tok("(", "call.(")
		n := ch.Weighted(3, 4, 3, 1)
		for i := 0; i < n; i++ {
			if i > 0 {
				e.tok(",", "call.,")
			}
			e.nl()
			e.expr(2, depth+1, false)
		}
		e.tok(")", "call.)")
		e.feat["call"]++
	case 9:
		e.object(depth+1, stmtStart)
		e.tok(".", "mem.dot")
		e.tok(e.ident(), "mem.prop")
		e.feat["member"]++
	case 10:
		e.object(depth+1, stmtStart)
		e.tok("[", "idx.[")
		e.expr(2, depth+1, false)
		e.tok("]", "idx.]")
		e.feat["index"]++
	case 11:
		e.tok("(", "grp.(")
		e.nl()
		e.expr(2, depth+1, false)
		e.tok(")", "grp.)")
		e.feat["group"]++
	case 12:
		e.tok("[", "arr.[")
		n := ch.Weighted(2, 3, 3, 1)
		for i := 0; i < n; i++ {
			if i > 0 {
				e.tok(",", "arr.,")
			}
			e.nl()
			e.expr(2, depth+1, false)
		}
		e.tok("]", "arr.]")
		e.feat["array"]++
	case 13:
		e.tok("{", "obj.{")
		n := ch.Weighted(2, 4, 3, 1)
		for i := 0; i < n; i++ {
			if i > 0 {
				e.tok(",", "obj.,")
			}
			e.nl()
			switch ch.Weighted(6, 2, 1) {
			case 0:
				e.tok(e.ident(), "obj.key")
			case 1:
				e.tok(e.stringLit(), "obj.key")
			case 2:
				e.tok([]string{"1", "2", "42"}[ch.Choose(3)], "obj.key")
			}
			e.tok(":", "obj.:")
			e.expr(2, depth+1, false)
		}
		e.tok("}", "obj.}")
		e.feat["object"]++
	case 14:
		e.funcExpr(depth)
	case 15:
		e.lvalue(depth+1, stmtStart)
		e.tok([]string{"=", "+=", "-="}[ch.Weighted(5, 2, 2)], "asg.op")
		e.nl()
		e.expr(2, depth+1, false)
		e.feat["assign"]++
	}
	if wrap {
		e.tok(")", "grp.)")
	}
}

func (e *emitter) funcExpr(depth int) {
	e.tok("function", "fe.kw")
	if e.ch.Bool(1, 3) {
		e.tok(e.ident(), "fe.name")
	}
	e.params("fe")
	// the body's statements belong to the enclosing statement for bookkeeping
	saveSep, savePrev := e.pendingSep, e.sepPrevTok
	e.pendingSep = false
	parent := e.curStmt
	nest := len(e.ctx)
	e.block(parent, nest, CtxFunc, "fe.{", "fe.}")
	e.curStmt = parent
	e.pendingSep, e.sepPrevTok = saveSep, savePrev
	e.feat["funcexpr"]++
}

// lvalue: identifier, member or index expression.
func (e *emitter) lvalue(depth int, stmtStart bool) {
	if depth >= e.cfg.MaxDepth || !e.budgetLeft() {
		e.tok(e.ident(), "id")
		return
	}
	switch e.ch.Weighted(6, 3, 2) {
	case 0:
		e.tok(e.ident(), "id")
	case 1:
		e.object(depth+1, stmtStart)
		e.tok(".", "mem.dot")
		e.tok(e.ident(), "mem.prop")
	case 2:
		e.object(depth+1, stmtStart)
		e.tok("[", "idx.[")
		e.expr(2, depth+1, false)
		e.tok("]", "idx.]")
	}
}

// object: something a member access can hang off: precedence >= call, not a bare number.
func (e *emitter) object(depth int, stmtStart bool) {
	if depth >= e.cfg.MaxDepth || !e.budgetLeft() {
		e.tok(e.ident(), "id")
		return
	}
	switch e.ch.Weighted(8, 3, 2, 1, 1, 1) {
	case 0:
		e.tok(e.ident(), "id")
	case 1:
		e.object(depth+1, stmtStart)
		e.tok(".", "mem.dot")
		e.tok(e.ident(), "mem.prop")
	case 2:
		e.callee(depth+1, stmtStart)
		e.tok("(", "call.(")
		if e.ch.Bool(1, 2) {
			e.expr(2, depth+1, false)
		}
		e.tok(")", "call.)")
	case 3:
		e.tok("(", "grp.(")
		e.expr(2, depth+1, false)
		e.tok(")", "grp.)")
	case 4:
		e.tok(e.stringLit(), "str")
	case 5:
		e.tok("[", "arr.[")
		if e.ch.Bool(1, 2) {
			e.expr(2, depth+1, false)
		}
		e.tok("]", "arr.]")
	}
}

func (e *emitter) callee(depth int, stmtStart bool) {
	if depth >= e.cfg.MaxDepth || !e.budgetLeft() {
		e.tok(e.ident(), "id")
		return
	}
	switch e.ch.Weighted(8, 4, 1, 2) {
	case 0:
		e.tok(e.ident(), "id")
	case 1:
		e.object(depth+1, stmtStart)
		e.tok(".", "mem.dot")
		e.tok(e.ident(), "mem.prop")
	case 2:
		e.callee(depth+1, stmtStart)
		e.tok("(", "call.(")
		e.tok(")", "call.)")
	case 3:
		// IIFE-style: (function(){...})
		e.tok("(", "grp.(")
		e.funcExpr(depth + 1)
		e.tok(")", "grp.)")
		e.feat["iife"]++
	}
}

var strPieces = []string{"a", "bc", " ", "hello", "x1", "\\n", "\\t", "\\\\", "\\x41", "\\xff", "\\x80\\xe9", "\\u0041", "\\u{1F600}", "%", "{", "}", "//", ";", "é", "日"}

func (e *emitter) stringLit() string {
	q := "'"
	other := "\""
	if e.ch.Bool(1, 2) {
		q, other = other, q
	}
	var sb strings.Builder
	sb.WriteString(q)
	n := e.ch.Weighted(1, 4, 3, 2)
	for i := 0; i < n; i++ {
		p := strPieces[e.ch.Choose(len(strPieces))]
		if !e.cfg.Multibyte && !isASCII(p) {
			p = "u"
		}
		sb.WriteString(p)
		if e.ch.Bool(1, 8) {
			sb.WriteString(other) // the other quote is harmless inside
		}
		if e.ch.Bool(1, 12) {
			sb.WriteString("\\" + q) // escaped own quote
		}
		if e.ch.Bool(1, 14) {
			sb.WriteString("\\\n") // line continuation: the literal goes on on the next line
		}
	}
	sb.WriteString(q)
	return sb.String()
}

func (e *emitter) templateLit() string {
	pieces := []string{"a", "text", " ", "\n", "'", "\"", "1+1", "{x}", ";", " \n", "\n\n", "  \n  b", "\t\n", "${x}", "\n// c\n", "x  ", "\\`", "a\\`b"}
	var sb strings.Builder
	sb.WriteString("`")
	n := e.ch.Weighted(1, 4, 3, 2, 1)
	for i := 0; i < n; i++ {
		sb.WriteString(pieces[e.ch.Choose(len(pieces))])
	}
	sb.WriteString("`")
	return sb.String()
}

// Generate produces one program.
func Generate(ch *kernel.Chooser, cfg Config) *Program {
	e := &emitter{ch: ch, cfg: cfg, curStmt: -1, feat: map[string]int{}}
	n := 1 + ch.Choose(cfg.MaxStmts)
	if n < cfg.MinStmts {
		n = cfg.MinStmts
	}
	if cfg.DeepNest > 0 {
		e.deepChain(-1, 0)
	} else {
		e.stmtList(-1, 0, n)
	}
	// trailing layout: a pending separator at end of input may be anything
	if e.pendingSep {
		switch ch.Weighted(4, 3, 2) {
		case 1:
			e.addTok(";", "sep.;")
		case 2:
			e.write("\n")
		}
	}
	if ch.Bool(1, 4) {
		e.write("\n")
	}
	if cfg.Comments && ch.Bool(1, 10) {
		e.write("// end")
	}
	p := &Program{Text: e.sb.String(), Toks: e.toks, Stmts: e.stmts, Seps: e.seps, MaxCtxDepth: e.maxCtx, Features: e.feat}
	for _, s := range e.starts {
		if s >= 0 {
			p.StmtStarts = append(p.StmtStarts, s)
		}
	}
	// statement steps happen in token order
	sortInts(p.StmtStarts)
	return p
}

func sortInts(a []int) {
	for i := 1; i < len(a); i++ {
		for j := i; j > 0 && a[j] < a[j-1]; j-- {
			a[j], a[j-1] = a[j-1], a[j]
		}
	}
}
