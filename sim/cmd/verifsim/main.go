// Command verifsim: check | worker | replay | selftest | solo.
package main

import (
	"flag"
	"fmt"
	"os"
	"strconv"

	"verifsim/kernel"

	_ "verifsim/engines/faultsim"
	_ "verifsim/engines/mapsim"
	_ "verifsim/engines/plugsim"
	_ "verifsim/engines/regsim"
)

func verifDir() string {
	if d := os.Getenv("VERIF_DIR"); d != "" {
		return d
	}
	return "/verif"
}

func seedFromEnv() int64 {
	if s := os.Getenv("VERIF_SEED"); s != "" {
		if v, err := strconv.ParseInt(s, 10, 64); err == nil {
			return v
		}
	}
	return 1
}

func main() {
	if len(os.Args) < 2 {
		fmt.Fprintln(os.Stderr, "usage: verifsim check <prop> <tier> | replay <file> | worker ... | selftest")
		os.Exit(2)
	}
	switch os.Args[1] {
	case "check":
		fs := flag.NewFlagSet("check", flag.ExitOnError)
		workers := fs.Int("workers", 0, "worker processes (default: cores, max 16)")
		runs := fs.Int64("runs", 0, "override number of runs")
		wall := fs.Int("wall", 0, "override wall cap (s)")
		fs.Parse(os.Args[2:])
		if fs.NArg() < 2 {
			fmt.Fprintln(os.Stderr, "usage: verifsim check [flags] <prop> <quick|thorough>")
			os.Exit(2)
		}
		tier := fs.Arg(1)
		if t := os.Getenv("VERIF_TIER"); t == "quick" || t == "thorough" {
			tier = t
		}
		os.Exit(kernel.Check(kernel.CheckArgs{Prop: fs.Arg(0), Tier: tier, Seed: seedFromEnv(), VerifDir: verifDir(),
			Workers: *workers, RunsOverride: *runs, WallOverride: *wall}))
	case "replay":
		if len(os.Args) < 3 {
			os.Exit(2)
		}
		os.Exit(kernel.Replay(os.Args[2], verifDir()))
	case "worker":
		fs := flag.NewFlagSet("worker", flag.ExitOnError)
		var a kernel.WorkerArgs
		fs.StringVar(&a.Prop, "prop", "", "")
		fs.StringVar(&a.Engine, "engine", "", "")
		fs.StringVar(&a.Tier, "tier", "quick", "")
		fs.Int64Var(&a.Seed, "seed", 1, "")
		fs.IntVar(&a.Worker, "w", 0, "")
		fs.IntVar(&a.Workers, "W", 1, "")
		fs.Int64Var(&a.Runs, "runs", 1, "")
		fs.Int64Var(&a.Until, "until", -1, "")
		fs.Int64Var(&a.OnlyRun, "only", -1, "")
		fs.IntVar(&a.DeadlineS, "deadline", 0, "")
		fs.IntVar(&a.BudgetMs, "budget-ms", 10000, "")
		fs.IntVar(&a.ShrinkS, "shrink-s", 0, "")
		fs.StringVar(&a.OutFile, "out", "", "")
		vd := fs.String("verif", verifDir(), "")
		fs.Parse(os.Args[2:])
		a.MaxShrink = 4
		a.KnownSigs = map[string]bool{}
		if kf, err := kernel.LoadKnown(*vd); err == nil {
			for _, k := range kf.Findings {
				a.KnownSigs[k.Property+"|"+k.Signature] = true
			}
		}
		os.Exit(kernel.RunWorker(a))
	default:
		if !extraCommand(os.Args[1], os.Args[2:]) {
			fmt.Fprintf(os.Stderr, "unknown command %q\n", os.Args[1])
			os.Exit(2)
		}
	}
}
