package main

// extraCommand dispatches commands added by later engines (solo, selftest).
func extraCommand(name string, args []string) bool {
	if f, ok := extraCommands[name]; ok {
		f(args)
		return true
	}
	return false
}

var extraCommands = map[string]func([]string){}
