package main

import "verifsim/engines/worldsim"

// extraCommand dispatches commands added by later engines (solo, selftest).
func extraCommand(name string, args []string) bool {
	if f, ok := extraCommands[name]; ok {
		f(args)
		return true
	}
	return false
}

var extraCommands = map[string]func([]string){
	"solo":      worldsim.SoloMain,
	"worldeval": worldsim.EvalMain,
	"parallel":  worldsim.ParallelMain,
}
