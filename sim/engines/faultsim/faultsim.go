// Package faultsim decides C12 and C11 by deterministic fault injection: the
// stored source text is the faulty medium. For each seeded valid program every
// single-token deletion, every statement-separator removal and every truncation
// offset is enumerated (C12, C11); C11 adds seeded byte-level corruption, double
// faults and random byte strings, under all four parser modes.
package faultsim

import (
	"fmt"
	"reflect"
	"strings"

	"github.com/xjslang/xjs/ast"
	"github.com/xjslang/xjs/lexer"
	"github.com/xjslang/xjs/parser"
	"github.com/xjslang/xjs/token"

	"verifsim/gen"
	"verifsim/jsref"
	"verifsim/kernel"
	"verifsim/xutil"
)

type Fault struct {
	Kind       string `json:"kind"` // delete | unsep | trunc | byte | double | random
	Text       string `json:"text"`
	At         int    `json:"at"`          // corruption point (byte offset in the original text)
	LastIntact int    `json:"last_intact"` // token index of the last intact token before the corruption point, -1 none
	Ctx        string `json:"ctx"`         // syntactic context known to the generator (signature component)
	Class      string `json:"class"`       // for truncation: string | backtick | bracket | block | toplevel
}

type Engine struct {
	decoyBuild bool // this run: another parser is built from the shared builder between Build and ParseProgram
	tier     string
	node     *jsref.Node
	nodeErr  error
	nodeInit bool
	cfgs     []xutil.CompilerConfig
	shared   [4]*sharedC11 // C11: per-run builders, one per mode
}

func New(tier string) kernel.Engine { return &Engine{tier: tier, cfgs: xutil.AllConfigs()} }
func (e *Engine) Name() string      { return "faultsim" }
func (e *Engine) Close() {
	if e.node != nil {
		e.node.Close()
	}
}

func (e *Engine) nodeRef(st *kernel.Stats) *jsref.Node {
	if !e.nodeInit {
		e.nodeInit = true
		e.node, e.nodeErr = jsref.StartNode()
	}
	return e.node
}

var reservedJS = map[string]bool{"do": true, "in": true, "if": true, "for": true, "new": true, "var": true, "let": true, "try": true, "this": true, "void": true, "else": true, "case": true, "with": true, "enum": true, "null": true, "true": true,
	"false": true, "class": true, "const": true, "break": true, "catch": true, "throw": true, "while": true, "yield": true, "super": true, "return": true, "typeof": true, "delete": true, "switch": true, "export": true, "import": true, "default": true, "finally": true, "extends": true, "function": true, "continue": true, "debugger": true, "instanceof": true}

// tokKind: coarse lexical kind of a generator token.
func tokKind(t gen.Tok) string {
	switch t.Role {
	case "str":
		return "string"
	case "tpl":
		return "backtick"
	case "num":
		return "number"
	}
	if t.Role == "obj.key" {
		if t.Text[0] == '\'' || t.Text[0] == '"' {
			return "string"
		}
		if t.Text[0] >= '0' && t.Text[0] <= '9' {
			return "number"
		}
	}
	c := t.Text[0]
	if c == '_' || c == '$' || (c >= 'a' && c <= 'z') || (c >= 'A' && c <= 'Z') {
		return "word"
	}
	return "punct"
}

// EnumerateFaults: every single-token deletion, separator removal, truncation offset.
func EnumerateFaults(p *gen.Program) []Fault {
	var out []Fault
	src := p.Text
	// token deletions
	for i, t := range p.Toks {
		repl := ""
		if i > 0 && i+1 < len(p.Toks) && p.Toks[i-1].End == t.Start && p.Toks[i+1].Start == t.End {
			repl = " " // keep the neighbours apart: the fault is the loss of a token, not a fusion of two
		}
		next := "EOF"
		if i+1 < len(p.Toks) {
			next = p.Toks[i+1].Role
		}
		out = append(out, Fault{Kind: "delete", Text: src[:t.Start] + repl + src[t.End:], At: t.Start, LastIntact: i - 1,
			Ctx: "del:" + t.Role + ">" + next})
	}
	// separator removals
	for _, s := range p.Seps {
		gap := src[s.GapStart:s.GapEnd]
		if !strings.ContainsAny(gap, ";\n") {
			continue
		}
		out = append(out, Fault{Kind: "unsep", Text: src[:s.GapStart] + " " + src[s.GapEnd:], At: s.GapStart, LastIntact: s.PrevTok,
			Ctx: "unsep:" + p.Toks[s.PrevTok].Role + ">" + p.Toks[s.NextTok].Role})
	}
	// truncations
	ti := 0
	for cut := 1; cut < len(src); cut++ {
		for ti < len(p.Toks) && p.Toks[ti].End <= cut {
			ti++
		}
		// tokens [0,ti) are intact; token ti (if any) starts before cut? then it is cut in the middle
		f := Fault{Kind: "trunc", Text: src[:cut], At: cut, LastIntact: ti - 1}
		depth, ctxDepth := 0, 0
		if ti < len(p.Toks) {
			depth, ctxDepth = p.Toks[ti].Depth, p.Toks[ti].CtxDepth
		}
		if ti < len(p.Toks) && p.Toks[ti].Start < cut {
			t := p.Toks[ti]
			k := tokKind(t)
			partial := src[t.Start:cut]
			f.Ctx = "trunc:mid-" + k
			switch k {
			case "string", "backtick":
				f.Class = k
				f.Ctx += ":" + t.Role
			case "word":
				if reservedJS[partial] && partial != t.Text {
					f.Ctx = "trunc:word-becomes-reserved:" + t.Role
				} else {
					f.Ctx += ":" + t.Role
				}
			default:
				f.Ctx += ":" + t.Role + ":" + partial
			}
		} else {
			last := "BOF"
			if ti > 0 {
				last = p.Toks[ti-1].Role
			}
			f.Ctx = "trunc:after:" + last
		}
		if f.Class == "" {
			switch {
			case depth > ctxDepth:
				f.Class = "bracket"
			case depth > 0:
				f.Class = "block"
			default:
				f.Class = "toplevel"
			}
		}
		out = append(out, f)
	}
	return out
}

func genConfig(ch *kernel.Chooser, big bool) gen.Config {
	cfg := gen.Config{MaxTokens: 24 + ch.Choose(24), MaxStmts: 1 + ch.Choose(4), MaxDepth: 2 + ch.Choose(3), MaxNest: 1 + ch.Choose(3),
		Comments: ch.Bool(1, 2), Multibyte: ch.Bool(1, 3), FuncHeavy: ch.Bool(1, 4)}
	if big && ch.Bool(1, 4) {
		// thorough tier: deeper bounds for a quarter of the programs
		cfg.MaxTokens = 48 + ch.Choose(100)
		cfg.MaxStmts = 1 + ch.Choose(8)
		cfg.MaxDepth = 2 + ch.Choose(6)
		cfg.MaxNest = 1 + ch.Choose(6)
		if ch.Bool(1, 6) {
			cfg.DeepNest = 6 + ch.Choose(40)
		}
	}
	return cfg
}

// validProgram generates a program and validates the generator's ground truth
// against xjs's plain lexer and the references; invalid ones are discarded.
func (e *Engine) validProgram(ch *kernel.Chooser, st *kernel.Stats) *gen.Program {
	p := gen.Generate(ch, genConfig(ch, e.tier == "thorough"))
	toks, pan := xutil.LexAll(lexer.NewBuilder(), p.Text, len(p.Text)+8)
	if pan != nil || len(toks) != len(p.Toks)+1 {
		st.Inc("discarded.lexer_desync")
		return nil
	}
	for i, gt := range p.Toks {
		xt := toks[i]
		if xt.Type == token.STRING || xt.Type == token.RAW_STRING {
			continue
		}
		if xt.Literal != gt.Text {
			st.Inc("discarded.lexer_desync")
			return nil
		}
	}
	if rej, err := jsref.GojaRejects(p.Text); rej || err != nil {
		st.Inc("discarded.goja_rejects_valid")
		return nil
	}
	o := xutil.Parse(xutil.PlainBuilder(xutil.Mode{}), p.Text)
	if o.Panic != nil || o.Err != nil {
		// "xjs accepts every valid subset program" is C02's business, not ours. The program is kept all the same:
		// its corruptions still have to be reported at the right place (C12), and parsing it still has to obey
		// the contract (C11).
		st.Inc("generated_program_rejected_by_xjs_kept")
	}
	return p
}

func (e *Engine) Run(prop string, ch *kernel.Chooser, st *kernel.Stats) kernel.RunResult {
	// in a third of the runs the host reads the fresh parser's error list before parsing (what is reported
	// afterwards must not depend on that)
	xutil.ReadErrorsFirst = ch.Bool(1, 3)
	defer func() { xutil.ReadErrorsFirst = false }()
	if xutil.ReadErrorsFirst {
		st.Inc("probe.errors_read_before_parsing")
	}
	switch prop {
	case "C12":
		return e.runC12(ch, st)
	case "C11":
		return e.runC11(ch, st)
	}
	return kernel.RunResult{}
}

// posOffset: byte offset of a 0-based (line, byte column) position, lines separated by \n; ok is false when the
// line does not exist or the column lies beyond the end of that line (the position of its \n, or the end of the text).
func posOffset(text string, p token.Position) (int, bool) {
	if p.Line < 0 || p.Column < 0 {
		return 0, false
	}
	start := 0
	for l := 0; l < p.Line; l++ {
		i := strings.IndexByte(text[start:], '\n')
		if i < 0 {
			return 0, false
		}
		start += i + 1
	}
	end := len(text)
	if i := strings.IndexByte(text[start:], '\n'); i >= 0 {
		end = start + i
	}
	if start+p.Column > end {
		return 0, false
	}
	return start + p.Column, true
}

var nestOpeners = [][2]string{{"{", "}"}, {"(", ")"}, {"[", "]"}, {"function f(){", "}"}, {"if(a){", "}"}, {"g(", ")"}, {"x=[", "]"}, {"(function(){", "})"}, {"while(a){{", "}}"}, {"{a:", "}"}}

// OddPrefixes: bytes that tools leave at the start of a stored source text.
var OddPrefixes = []string{"\xEF\xBB\xBF", "\xEF\xBB\xBF// c\n", "\uFEFF\n", "#!/usr/bin/env xjs\n", "\x00", "\u200b", "\u00a0", "\r\n", "\t\v\f ", "/**/", "<!-- x\n", "\xFF\xFE", "\u2028", "\xEF\xBB\xBF\xEF\xBB\xBF"}

// ---- C12 ---------------------------------------------------------------------

func (e *Engine) runC12(ch *kernel.Chooser, st *kernel.Stats) kernel.RunResult {
	p := e.validProgram(ch, st)
	if p == nil {
		return kernel.RunResult{Evals: 1}
	}
	node := e.nodeRef(st)
	if node == nil {
		st.Inc("precondition.node_unavailable_runs")
	} else {
		// the valid program must be valid for node too
		if rej, err := node.Rejects(p.Text); err != nil || rej {
			st.Inc("discarded.node_rejects_valid")
			return kernel.RunResult{Evals: 1}
		}
	}
	faults := EnumerateFaults(p)
	res := kernel.RunResult{Fingerprint: kernel.Hash64(p.Text), Nontrivial: len(p.Toks) >= 4, Evals: int64(len(faults)), Steps: int64(len(faults))}
	// the strict parser comes from a builder with a seeded history: fresh, or one that was used in
	// tolerant mode / with smart semicolons before being switched (back) to strict
	pb := xutil.PlainBuilder(xutil.Mode{})
	switch ch.Weighted(3, 1, 1, 1) {
	case 1:
		pb = parser.NewBuilder(lexer.NewBuilder()).WithTolerantMode(true)
		xutil.Parse(pb, p.Text)
		pb.WithTolerantMode(false)
		st.Inc("probe.strict_builder_was_tolerant_before")
	case 2:
		pb = parser.NewBuilder(lexer.NewBuilder()).WithSmartSemicolon(true)
		xutil.Parse(pb, p.Text)
		pb.WithSmartSemicolon(false)
		st.Inc("probe.strict_builder_had_smart_semicolons_before")
	case 3:
		pb = parser.NewBuilder(lexer.NewBuilder()).WithTolerantMode(true).WithSmartSemicolon(true)
		if len(faults) > 0 {
			xutil.Parse(pb, faults[ch.Choose(len(faults))].Text)
		}
		pb.WithSmartSemicolon(false).WithTolerantMode(false)
		st.Inc("probe.strict_builder_was_tolerant_before")
	}
	// "strict" means not tolerant; smart semicolons are an independent option and may be on. Their one documented
	// effect - a `(` or `[` that starts a line does not continue the previous expression - is a deliberate
	// deviation from JavaScript, so texts with such a token are parsed by the plain strict builder.
	smartPB := (*parser.Builder)(nil)
	if ch.Bool(1, 4) {
		smartPB = parser.NewBuilder(lexer.NewBuilder()).WithSmartSemicolon(true)
		st.Inc("probe.strict_with_smart_semicolons")
	}
	plainPB := pb
	seen := map[string]bool{}
	lateSwitch := ch.Bool(1, 5)
	// the driver: ParseProgram (usual), ParseProgram called twice (the second answer counts too), or a host that
	// loops over ParseStatement()/NextToken() itself and reads Errors()
	driver := ch.Weighted(6, 1, 1)
	if driver == 2 {
		st.Inc("probe.host_driven_statement_loop")
	}
	if lateSwitch {
		st.Inc("probe.builder_switched_to_tolerant_between_build_and_parse")
	}
	var prevParser *parser.Parser
	var prevFault Fault
	var prevProgram *ast.Program
	// judge: the property's oracle on what a strict parser reports for the corrupted text f
	judge := func(f Fault, errNil bool, errs []parser.ParserError) (kind, detail string) {
		if errNil || len(errs) == 0 {
			return "accept", "strict-mode ParseProgram reported no error"
		}
		if f.LastIntact >= 0 {
			lt := p.Toks[f.LastIntact]
			es := errs[0].Range.Start
			if xutil.PosLess(es, token.Position{Line: lt.Line, Column: lt.Col}) {
				return "early", fmt.Sprintf("first error %q at %d:%d is before the last intact token %q at %d:%d", errs[0].Message, es.Line, es.Column, lt.Text, lt.Line, lt.Col)
			}
		}
		return "", ""
	}
	// report: a failed judgement counts only when both reference parsers reject the text
	report := func(f Fault, kind, detail string, prog *ast.Program, sigSuffix string) {
		grej, gerr := jsref.GojaRejects(f.Text)
		if gerr != nil {
			st.Inc("precondition.goja_panicked")
			return
		}
		if !grej {
			st.Inc("precondition.still_valid_js")
			return
		}
		if node != nil {
			nrej, nerr := node.Rejects(f.Text)
			if nerr != nil {
				st.Inc("precondition.node_error")
				return
			}
			if !nrej {
				st.Inc("precondition.disagreements")
				return
			}
		}
		st.Inc("precondition.both_reject_and_xjs_wrong")
		sig := kind + "|" + f.Ctx
		if kind == "accept" {
			if rc := rootCause(prog, f.Text); rc != "" {
				sig = "accept|" + rc
			} else {
				sig = "accept|unclassified|" + f.Ctx
			}
		}
		sig += sigSuffix
		if seen[sig] {
			return
		}
		seen[sig] = true
		res.Violations = append(res.Violations, kernel.Violation{Property: "C12", Kind: kind, Signature: sig,
			Detail:       fmt.Sprintf("%s fault at byte %d (%s): %s\ncorrupted text: %q\noriginal text:  %q", f.Kind, f.At, f.Ctx, detail, f.Text, p.Text),
			Materialised: map[string]any{"program": p.Text, "fault": f}})
	}
	for _, f := range faults {
		st.Inc("fault." + f.Kind)
		if f.Kind == "trunc" {
			st.Inc("fault.trunc_in_" + f.Class)
		}
		pb = plainPB
		if smartPB != nil {
			lineStart := false
			if tk, pan := xutil.LexAll(lexer.NewBuilder(), f.Text, len(f.Text)+8); pan == nil {
				for _, t := range tk {
					if (t.Type == token.LPAREN || t.Type == token.LBRACKET) && t.AfterNewline {
						lineStart = true
					}
				}
			} else {
				lineStart = true
			}
			if !lineStart {
				pb = smartPB
				st.Inc("c12.parsed_with_smart_semicolons")
			}
		}
		// one run in five: the host switches the builder to tolerant mode after this parser was built and before it
		// parses (a parser keeps the modes it was built with), and back afterwards
		xutil.AfterBuild = nil
		if lateSwitch {
			sw := pb
			xutil.AfterBuild = func() { sw.WithTolerantMode(true) }
		}
		xutil.HostDriven = driver == 2
		o := xutil.Parse(pb, f.Text)
		xutil.HostDriven = false
		xutil.AfterBuild = nil
		if lateSwitch {
			pb.WithTolerantMode(false)
		}
		if driver == 1 && o.Panic == nil && o.Parser != nil {
			// asked again, the parser must not take its report back
			func() {
				defer func() { _ = recover() }()
				_, err2 := o.Parser.ParseProgram()
				st.Inc("probe.ParseProgram_called_twice")
				if o.Err != nil && err2 == nil {
					o.Err = nil
				}
				o.Errors = o.Parser.Errors()
			}()
		}
		// what the previous parser reports must still satisfy the property now that a later parser has run
		if prevParser != nil {
			if k, d := judge(prevFault, false, prevParser.Errors()); k != "" {
				report(prevFault, k, d+" (its error list re-read after a later parser had been built and run)", prevProgram, "|reread")
			}
			prevParser = nil
		}
		if o.Panic != nil {
			// a panic is C11's business; for C12 it is "no error reported" only if it escaped... count and skip
			st.Inc("c12.parse_panicked")
			continue
		}
		kind, detail := judge(f, o.Err == nil, o.Errors)
		if kind == "" {
			st.Inc("c12.rejected_ok")
			prevParser, prevFault, prevProgram = o.Parser, f, o.Program
			continue
		}
		report(f, kind, detail, o.Program, "")
	}
	if len(p.Toks) <= 12 {
		res.Sample = map[string]any{"program": p.Text, "faults_enumerated": len(faults), "example_fault": faults[len(faults)/2]}
	}
	return res
}

// rootCause inspects the tree xjs built for an accepted-but-invalid text and
// names the place in xjs that let it through (the known-finding key). The
// classes are properties of xjs's grammar checks, not of the fault location, so
// that a different silent acceptance is still reported as new.
func rootCause(prog *ast.Program, text string) string {
	// unterminated string / backtick literal at end of input
	toks, _ := xutil.LexAll(lexer.NewBuilder(), text, len(text)+8)
	if len(toks) >= 2 {
		t := toks[len(toks)-2]
		if t.Type == token.STRING || t.Type == token.RAW_STRING {
			// byte offset of the token start
			off := offsetOf(text, t.Start.Line, t.Start.Column)
			if off >= 0 && off < len(text) {
				q := text[off]
				body := text[off+1:]
				if !terminated(body, q) {
					if t.Type == token.STRING {
						return "lexer:unterminated-string-literal"
					}
					return "lexer:unterminated-backtick-literal"
				}
			}
		}
	}
	cause := ""
	set := func(c string) {
		if cause == "" {
			cause = c
		}
	}
	assignable := func(e ast.Expression) bool {
		for {
			g, ok := e.(*ast.GroupedExpression)
			if !ok {
				break
			}
			e = g.Expression
		}
		switch e.(type) {
		case *ast.Identifier, *ast.MemberExpression:
			return true
		}
		return false
	}
	isLet := func(s ast.Statement) bool { _, ok := s.(*ast.LetStatement); return ok }
	isPostfix := func(e ast.Expression) bool { _, ok := e.(*ast.PostfixExpression); return ok }
	// return outside any function body
	xutil.WalkNodesStop(prog, func(n any) bool {
		switch n.(type) {
		case *ast.FunctionDeclaration, *ast.FunctionExpression:
			return false
		case *ast.ReturnStatement:
			set("parser:return-outside-function-accepted")
		}
		return true
	})
	xutil.WalkNodes(prog, func(n any) {
		switch x := n.(type) {
		case *ast.ReturnStatement:
			if x.ReturnValue != nil {
				if lt, ok := xutil.LeftmostExprToken(x.ReturnValue); ok && lt.Start.Line > x.Token.Start.Line {
					set("parser:return-value-read-across-line-break")
				}
			}
		case *ast.PostfixExpression:
			if x.Token.AfterNewline {
				set("parser:postfix-operator-applied-across-line-break")
			}
			if !assignable(x.Left) {
				set("parser:update-or-assignment-target-not-validated")
			}
		case *ast.UnaryExpression:
			if (x.Operator == "++" || x.Operator == "--") && !assignable(x.Right) {
				set("parser:update-or-assignment-target-not-validated")
			}
		case *ast.AssignmentExpression:
			if !assignable(x.Left) {
				set("parser:update-or-assignment-target-not-validated")
			}
		case *ast.CompoundAssignmentExpression:
			if !assignable(x.Left) {
				set("parser:update-or-assignment-target-not-validated")
			}
		case *ast.CallExpression:
			if isPostfix(x.Function) {
				set("parser:postfix-result-accepted-as-call-or-member-base")
			}
		case *ast.MemberExpression:
			if isPostfix(x.Object) {
				set("parser:postfix-result-accepted-as-call-or-member-base")
			}
			if !x.Computed {
				if _, ok := x.Property.(*ast.Identifier); !ok {
					set("parser:member-property-after-dot-not-validated")
				}
			}
		case *ast.Identifier:
			if reservedJS[x.Value] {
				set("parser:javascript-reserved-word-accepted-as-identifier")
			}
		case *ast.IfStatement:
			if isLet(x.ThenBranch) || isLet(x.ElseBranch) {
				set("parser:let-accepted-as-single-statement-body")
			}
		case *ast.WhileStatement:
			if isLet(x.Body) {
				set("parser:let-accepted-as-single-statement-body")
			}
		case *ast.ForStatement:
			if isLet(x.Body) {
				set("parser:let-accepted-as-single-statement-body")
			}
		case *ast.ObjectLiteral:
			for _, p := range x.Properties {
				switch p.Key.(type) {
				case *ast.Identifier, *ast.StringLiteral, *ast.IntegerLiteral, *ast.FloatLiteral:
				default:
					set("parser:object-key-not-validated")
				}
			}
		case *ast.FunctionDeclaration:
			for _, p := range x.Parameters {
				if p != nil && p.Token.Type != token.IDENT {
					set("parser:function-parameter-not-validated")
				}
			}
		case *ast.FunctionExpression:
			for _, p := range x.Parameters {
				if p != nil && p.Token.Type != token.IDENT {
					set("parser:function-parameter-not-validated")
				}
			}
		}
	})
	if cause == "" {
		backtickContinuation(prog, toks, set)
	}
	return cause
}

// backtickContinuation: an expression statement that begins with a backtick
// literal on a new line while the token before it does not end a statement;
// JavaScript reads it as a tagged-template continuation of the previous
// expression, xjs (which has no tagged templates) as a new statement.
func backtickContinuation(prog *ast.Program, toks []token.Token, set func(string)) {
	xutil.WalkNodes(prog, func(n any) {
		es, ok := n.(*ast.ExpressionStatement)
		if !ok {
			return
		}
		var e ast.Expression = es.Expression
		for e != nil {
			switch x := e.(type) {
			case *ast.BinaryExpression:
				e = x.Left
				continue
			case *ast.CallExpression:
				e = x.Function
				continue
			case *ast.MemberExpression:
				e = x.Object
				continue
			case *ast.PostfixExpression:
				e = x.Left
				continue
			case *ast.AssignmentExpression:
				e = x.Left
				continue
			case *ast.CompoundAssignmentExpression:
				e = x.Left
				continue
			}
			break
		}
		t, ok := e.(*ast.MultiStringLiteral)
		if !ok || !t.Token.AfterNewline {
			return
		}
		for i, lt := range toks {
			if lt.Type == token.RAW_STRING && lt.Start == t.Token.Start && i > 0 {
				switch toks[i-1].Type {
				case token.SEMICOLON, token.LBRACE, token.RBRACE:
				default:
					set("parser:backtick-literal-on-next-line-starts-new-statement")
				}
			}
		}
	})
}

func offsetOf(text string, line, col int) int {
	off := 0
	for l := 0; l < line; l++ {
		i := strings.IndexByte(text[off:], '\n')
		if i < 0 {
			return -1
		}
		off += i + 1
	}
	return off + col
}

// terminated: does body (text after the opening quote q) contain an unescaped closing q?
func terminated(body string, q byte) bool {
	for i := 0; i < len(body); i++ {
		if body[i] == '\\' {
			i++
			continue
		}
		if body[i] == q {
			return true
		}
	}
	return false
}

// ---- C11 ---------------------------------------------------------------------

var corruptBytes = []byte{0, '\r', '\n', 0x80, 0xFF, 0xC3, '"', '\'', '`', '\\', '/', '{', '}', '(', ')', '[', ']', ';', '.', '0', '8', 'e', 'x', '=', '+', '-', '!', '&', '|', ' ', ',', ':', 'a', '$', '#', '@', '~', '?', '^', '<', '*', '%', 0x7F, 0x01, 0xE2}

func ByteFault(ch *kernel.Chooser, src string) Fault { return byteFault(ch, src) }

func byteFault(ch *kernel.Chooser, src string) Fault {
	if len(src) == 0 {
		return Fault{Kind: "byte", Text: string(corruptBytes[ch.Choose(len(corruptBytes))])}
	}
	at := ch.Choose(len(src))
	b := corruptBytes[ch.Choose(len(corruptBytes))]
	var text, k string
	switch ch.Choose(4) {
	case 0:
		text, k = src[:at]+string([]byte{b})+src[at+1:], "flip"
	case 1:
		text, k = src[:at]+string([]byte{b})+src[at:], "insert"
	case 2:
		text, k = src[:at]+src[at+1:], "delete"
	default:
		n := 1 + ch.Choose(6)
		if at+n > len(src) {
			n = len(src) - at
		}
		text, k = src[:at+n]+src[at:], "duplicate"
	}
	return Fault{Kind: "byte", Text: text, At: at, LastIntact: -1, Ctx: "byte:" + k}
}

var insertVocab = []string{";", ",", ".", ":", "(", ")", "{", "}", "[", "]", "=", "==", "=>", "++", "--", "!", "-", "+", "*", "/", "%", "&&", "||", "<", ">=", "+=", "-=",
	"let", "function", "return", "if", "else", "while", "for", "true", "null", "x", "0", "08", "1.", ".5", "1e", "0x", "''", "`", "\"", "'", "//", "/*", "*/", "/**/", "#", "@", "\\", "?", "~", "^", "&", "|", "...", "?.", "**",
	"var", "const", "new", "this", "typeof", "in", "of", "do", "class", "async", "await", "yield", "break", "continue", "switch", "case", "try", "catch", "throw", "delete", "void"}

var optionalFields = map[string]bool{
	"LetStatement.Value": true, "LetExpression.Value": true, "ReturnStatement.ReturnValue": true, "IfStatement.ElseBranch": true,
	"ForStatement.Init": true, "ForStatement.Condition": true, "ForStatement.Update": true, "FunctionExpression.Name": true,
}

var stmtIface = reflect.TypeOf((*ast.Statement)(nil)).Elem()

// walkTree checks (a) no nil/typed-nil entries in statement lists (always) and
// (b) all mandatory children present (only demanded when no error was reported).
// It returns the first problem of each kind.
func walkTree(v reflect.Value, path string, nilStmt *string, missing *string, depth int) {
	if depth > 2000 || !v.IsValid() {
		return
	}
	switch v.Kind() {
	case reflect.Interface, reflect.Ptr:
		if v.IsNil() {
			return
		}
		walkTree(v.Elem(), path, nilStmt, missing, depth+1)
	case reflect.Struct:
		t := v.Type()
		if t == reflect.TypeOf(token.Token{}) {
			return
		}
		for i := 0; i < v.NumField(); i++ {
			f := t.Field(i)
			if !f.IsExported() {
				continue
			}
			fv := v.Field(i)
			name := t.Name() + "." + f.Name
			switch fv.Kind() {
			case reflect.Interface, reflect.Ptr:
				isNil := fv.IsNil() || (fv.Kind() == reflect.Interface && (fv.Elem().Kind() == reflect.Ptr && fv.Elem().IsNil()))
				if isNil {
					if !optionalFields[name] && *missing == "" {
						*missing = name
					}
					continue
				}
				walkTree(fv, path+"/"+f.Name, nilStmt, missing, depth+1)
			case reflect.Slice:
				isStmtList := fv.Type().Elem() == stmtIface
				for j := 0; j < fv.Len(); j++ {
					el := fv.Index(j)
					elNil := false
					typ := ""
					switch el.Kind() {
					case reflect.Interface:
						if el.IsNil() {
							elNil, typ = true, "nil"
						} else if el.Elem().Kind() == reflect.Ptr && el.Elem().IsNil() {
							elNil, typ = true, "typed-nil "+el.Elem().Type().String()
						}
					case reflect.Ptr:
						if el.IsNil() {
							elNil, typ = true, "nil "+el.Type().String()
						}
					}
					if elNil {
						if isStmtList {
							if *nilStmt == "" {
								*nilStmt = name + ":" + typ
							}
						} else if *missing == "" {
							*missing = name + "[]"
						}
						continue
					}
					walkTree(el, fmt.Sprintf("%s/%s[%d]", path, f.Name, j), nilStmt, missing, depth+1)
				}
			case reflect.Struct:
				walkTree(fv, path+"/"+f.Name, nilStmt, missing, depth+1)
			}
		}
	}
}

type pullAbort struct{}

func msgClass(m string) string {
	// message with literals stripped: "unexpected X" -> "unexpected", "X expected" -> "expected"
	switch {
	case strings.HasPrefix(m, "unexpected"):
		return "unexpected"
	case strings.HasSuffix(m, "expected"):
		return "expected"
	case strings.HasPrefix(m, "could not parse"):
		return "could-not-parse"
	case strings.HasPrefix(m, "unclosed block"):
		return "unclosed-block"
	}
	return "other"
}

type sharedC11 struct {
	pb           *parser.Builder
	pulls, limit int
	prev         *parser.Parser
	prevErrors   string
	prevText     string
}

func (e *Engine) sharedBuilder(m xutil.Mode) *sharedC11 {
	i := 0
	if m.Tolerant {
		i |= 1
	}
	if m.Smart {
		i |= 2
	}
	if e.shared[i] == nil {
		sb := &sharedC11{}
		lb := lexer.NewBuilder().UseTokenInterceptor(func(l *lexer.Lexer, next func() token.Token) token.Token {
			sb.pulls++
			if sb.pulls > sb.limit {
				panic(pullAbort{})
			}
			return next()
		})
		sb.pb = parser.NewBuilder(lb).WithTolerantMode(m.Tolerant).WithSmartSemicolon(m.Smart)
		e.shared[i] = sb
	}
	return e.shared[i]
}

// checkC11 runs all C11 invariants for one text in one mode; returns violations (deduplicated by caller).
const decoyText = "(((\n\n\n      let ) = ;\n'unterminated"

func (e *Engine) checkC11(text string, m xutil.Mode, f *Fault, st *kernel.Stats, add func(kind, sig, detail string)) {
	// pull counter: a pass-through token interceptor (bounded-step liveness). One builder per mode serves
	// all texts of a run: tools re-parse with the builder they configured once.
	limit := 4*len(text) + 64
	sb := e.sharedBuilder(m)
	sb.pulls, sb.limit = 0, limit
	// in a quarter of the runs the host builds a second parser from the same builder (for another text) before this
	// one has run; that parser is only built, never used
	xutil.AfterBuild = nil
	if e.decoyBuild {
		pbb := sb.pb
		xutil.AfterBuild = func() { _ = pbb.Build(decoyText) }
	}
	o := xutil.Parse(sb.pb, text)
	xutil.AfterBuild = nil
	st.Inc("c11.parses")
	// what an earlier parser of this builder reported must still be what it reports now
	if sb.prev != nil {
		if now := xutil.ErrorsString(sb.prev.Errors()); now != sb.prevErrors {
			add("errors-changed", "errors-changed-by-later-parser", fmt.Sprintf("mode %s: a parser built earlier from the same builder reported %q for input %q; after this parse it reports %q", m, sb.prevErrors, sb.prevText, now))
		}
		st.Inc("c11.earlier_parser_errors_rechecked")
	}
	sb.prev = nil
	if o.Panic == nil && o.Parser != nil {
		sb.prev, sb.prevErrors, sb.prevText = o.Parser, xutil.ErrorsString(o.Errors), text
	}
	if o.Panic != nil {
		if _, ok := o.Panic.(pullAbort); ok {
			add("no-progress", "pull-bound", fmt.Sprintf("mode %s: the parser requested more than %d tokens for a %d-byte input (loop that keeps pulling end-of-input)", m, limit, len(text)))
		} else {
			add("panic", "parse-panic|"+xutil.TopFrames(o.Stack, 2), fmt.Sprintf("mode %s: ParseProgram panicked: %v\n%s", m, o.Panic, xutil.TopFrames(o.Stack, 6)))
		}
		return
	}
	if o.Program == nil {
		add("nil-program", "nil-program", fmt.Sprintf("mode %s: ParseProgram returned a nil program", m))
		return
	}
	if (o.Err != nil) != (len(o.Errors) > 0) {
		add("err-iff", fmt.Sprintf("err-iff|err=%v|n=%d", o.Err != nil, min(len(o.Errors), 2)), fmt.Sprintf("mode %s: error value = %v but the error list has %d entries", m, o.Err, len(o.Errors)))
	}
	// the contract holds for every call: asking the same parser again must not panic, must return a program,
	// and must keep "error value iff error list non-empty"
	if o.Parser != nil {
		var p2 *ast.Program
		var err2 error
		var pan2 any
		func() {
			defer func() { pan2 = recover() }()
			p2, err2 = o.Parser.ParseProgram()
		}()
		st.Inc("c11.second_calls")
		switch n2 := len(o.Parser.Errors()); {
		case pan2 != nil:
			if _, ok := pan2.(pullAbort); !ok {
				add("panic", "second-call|panic", fmt.Sprintf("mode %s: a second ParseProgram call on the same parser panicked: %v", m, pan2))
			}
		case p2 == nil:
			add("nil-program", "second-call|nil-program", fmt.Sprintf("mode %s: a second ParseProgram call on the same parser returned a nil program", m))
		case (err2 != nil) != (n2 > 0):
			add("err-iff", fmt.Sprintf("second-call|err-iff|err=%v", err2 != nil), fmt.Sprintf("mode %s: a second ParseProgram call on the same parser returned error value %v while the error list has %d entries", m, err2, n2))
		}
	}
	if sb.prev == o.Parser && o.Parser != nil {
		sb.prevErrors = xutil.ErrorsString(o.Parser.Errors()) // what this parser reports once it is done with
	}
	var nilStmt, missing string
	walkTree(reflect.ValueOf(o.Program), "", &nilStmt, &missing, 0)
	if nilStmt != "" {
		add("nil-statement", "nil-statement|"+nilStmt, fmt.Sprintf("mode %s: statement list contains a nil entry: %s", m, nilStmt))
	}
	if len(o.Errors) > 0 {
		st.Inc("c11.with_errors")
		// every error range coincides with the range of a token of the input
		toks, _ := xutil.LexAllToEnd(lexer.NewBuilder(), text)
		for _, pe := range o.Errors {
			ok := false
			for _, t := range toks {
				if t.Start == pe.Range.Start && t.End == pe.Range.End {
					ok = true
					break
				}
			}
			if !ok {
				eofNote := ""
				if n := len(toks); n > 0 && xutil.PosLess(toks[n-1].Start, pe.Range.Start) {
					eofNote = "beyond-eof"
				}
				add("range-not-token", "range-not-token|"+msgClass(pe.Message)+"|"+eofNote,
					fmt.Sprintf("mode %s: error %q has range %d:%d-%d:%d which is not the range of any token of the input (end-of-input token is at %d:%d)",
						m, pe.Message, pe.Range.Start.Line, pe.Range.Start.Column, pe.Range.End.Line, pe.Range.End.Column, toks[len(toks)-1].Start.Line, toks[len(toks)-1].Start.Column))
				break
			}
		}
		// ... and a token of the input lies inside the input: the range, read as (line, byte column) with lines
		// separated by \n, starts no later than it ends and ends no later than the end of its line / of the text
		// (independent of the lexer that produced the tokens above)
		for _, pe := range o.Errors {
			so, sok := posOffset(text, pe.Range.Start)
			eo, eok := posOffset(text, pe.Range.End)
			if !sok || !eok || so > eo {
				add("range-not-token", "range-outside-input|"+msgClass(pe.Message),
					fmt.Sprintf("mode %s: error %q has range %d:%d-%d:%d, which does not lie inside the %d-byte input (lines are separated by \\n, columns count bytes)",
						m, pe.Message, pe.Range.Start.Line, pe.Range.Start.Column, pe.Range.End.Line, pe.Range.End.Column, len(text)))
				break
			}
		}
		return
	}
	// no error reported: mandatory children + compiles everywhere
	st.Inc("c11.error_free")
	if missing != "" {
		add("missing-child", "missing-child|"+missing, fmt.Sprintf("mode %s: no error was reported but %s is nil", m, missing))
	}
	for _, c := range e.cfgs {
		_, pan, stack := xutil.Compile(c, o.Program)
		st.Inc("c11.compiles")
		if pan != nil {
			add("compile-panic", "compile-panic|"+xutil.TopFrames(stack, 2), fmt.Sprintf("mode %s, config %s: Compile panicked on an error-free tree: %v\n%s", m, c, pan, xutil.TopFrames(stack, 6)))
			break
		}
	}
	func() {
		defer func() {
			if r := recover(); r != nil {
				add("compile-panic", "debug-tostring-panic", fmt.Sprintf("mode %s: debug.ToString-equivalent compact write panicked: %v", m, r))
			}
		}()
		var w ast.CodeWriter
		o.Program.WriteTo(&w)
	}()
}

// neighbours: "any input" is parsed in a process where other parser instances, with plugins, have lived
// before. Fixed (no choices): a few builders with operators on built-in and dynamic token types and
// pass-through interceptors parse and compile small programs. Their results are not judged here.
func neighbours(st *kernel.Stats) {
	defer func() { recover() }()
	st.Inc("fault.plugin_bearing_neighbour_parsers_before_the_run")
	mk := func(role string, word string) func(token.Token, ast.Expression, func() ast.Expression) ast.Expression {
		return func(tok token.Token, left ast.Expression, right func() ast.Expression) ast.Expression {
			var r ast.Expression
			if right != nil {
				r = right()
			}
			if left == nil {
				return r
			}
			return &ast.BinaryExpression{Token: tok, Left: left, Operator: word, Right: r}
		}
	}
	type cfg struct{ pre, in, post bool }
	for i, c := range []cfg{{false, false, true}, {true, false, false}, {false, true, false}, {true, true, true}} {
		lb := lexer.NewBuilder()
		pb := parser.NewBuilder(lb)
		tA, tB, tC := lb.RegisterTokenType("NA"), lb.RegisterTokenType("NB"), lb.RegisterTokenType("NC")
		lb.UseTokenInterceptor(func(l *lexer.Lexer, next func() token.Token) token.Token {
			t := next()
			if t.Type == token.IDENT {
				switch t.Literal {
				case "NA":
					t.Type = tA
				case "NB":
					t.Type = tB
				case "NC":
					t.Type = tC
				}
			}
			return t
		})
		if c.post {
			// the library's own factorial example: postfix ! on the built-in NOT token
			pb.RegisterPostfixOperator(token.NOT, func(tok token.Token, left ast.Expression) ast.Expression { return mk("post", "!")(tok, left, nil) })
			pb.RegisterPostfixOperator(tC, func(tok token.Token, left ast.Expression) ast.Expression { return mk("post", "NC")(tok, left, nil) })
		}
		if c.pre {
			pb.RegisterPrefixOperator(tA, func(tok token.Token, right func() ast.Expression) ast.Expression { return right() })
		}
		if c.in {
			pb.RegisterInfixOperator(tB, 4+i, mk("in", "NB"))
			pb.RegisterInfixOperator(token.NOT, 6, mk("in", "!"))
		}
		pb.UseStatementInterceptor(func(p *parser.Parser, next func() ast.Statement) ast.Statement { return next() })
		pb.UseExpressionInterceptor(func(p *parser.Parser, next func() ast.Expression) ast.Expression { return next() })
		for _, src := range []string{"let a = 5! + NA b NB c NC; f(a)!", "x = NA y ! z NB 1; if (x) { y NC }", "let"} {
			o := xutil.Parse(pb, src)
			if o.Panic == nil && o.Program != nil && o.Err == nil {
				xutil.Compile(xutil.CompilerConfig{}, o.Program)
			}
		}
	}
}

func (e *Engine) runC11(ch *kernel.Chooser, st *kernel.Stats) kernel.RunResult {
	e.shared = [4]*sharedC11{} // fresh builders for every run: a run is a pure function of its tape
	neighbours(st)
	e.decoyBuild = ch.Bool(1, 4)
	if e.decoyBuild {
		st.Inc("probe.second_parser_built_before_the_first_has_run")
	}
	var texts []Fault
	var base string
	res := kernel.RunResult{}
	if ch.Bool(1, 12) {
		// short uniformly random byte strings
		n := 1 + ch.Choose(24)
		b := make([]byte, n)
		for i := range b {
			if ch.Bool(1, 3) {
				b[i] = byte(ch.Choose(256))
			} else {
				b[i] = corruptBytes[ch.Choose(len(corruptBytes))]
			}
		}
		base = string(b)
		texts = append(texts, Fault{Kind: "random", Text: base, Ctx: "random"})
		for i := 0; i < 6; i++ {
			texts = append(texts, byteFault(ch, base))
		}
		res.Nontrivial = true
	} else {
		p := e.validProgram(ch, st)
		if p == nil {
			return kernel.RunResult{Evals: 1}
		}
		base = p.Text
		texts = append(texts, Fault{Kind: "none", Text: base, Ctx: "valid"})
		enum := EnumerateFaults(p)
		if len(enum) > 1200 {
			// very large programs (thorough tier): a seeded sample of the enumerated positions
			step := len(enum)/1200 + 1
			off := ch.Choose(step)
			var sampled []Fault
			for i := off; i < len(enum); i += step {
				sampled = append(sampled, enum[i])
			}
			enum = sampled
			st.Inc("c11.large_program_fault_positions_sampled")
		}
		texts = append(texts, enum...)
		nb := 24 + ch.Choose(24)
		for i := 0; i < nb; i++ {
			texts = append(texts, byteFault(ch, base))
		}
		// double faults: fault sequences of length 2
		for i := 0; i < 12; i++ {
			f1 := byteFault(ch, base)
			f2 := byteFault(ch, f1.Text)
			f2.Kind, f2.Ctx = "double", "double:"+f1.Ctx+"+"+f2.Ctx
			texts = append(texts, f2)
		}
		if len(p.Toks) >= 2 {
			for i := 0; i < 8; i++ {
				a, b := ch.Choose(len(p.Toks)), ch.Choose(len(p.Toks))
				if a == b {
					continue
				}
				if a > b {
					a, b = b, a
				}
				ta, tb := p.Toks[a], p.Toks[b]
				texts = append(texts, Fault{Kind: "double", Ctx: "double:del+del", At: ta.Start,
					Text: base[:ta.Start] + " " + base[ta.End:tb.Start] + " " + base[tb.End:]})
			}
		}
		// further token-level mutations: swap neighbours, duplicate, replace by another token of the
		// program, insert a token from a vocabulary of keywords and punctuators (incl. ones xjs does not know)
		if n := len(p.Toks); n >= 2 {
			for i := 0; i < 6; i++ {
				a := ch.Choose(n - 1)
				ta, tb := p.Toks[a], p.Toks[a+1]
				texts = append(texts, Fault{Kind: "tokswap", Ctx: "tokswap", At: ta.Start,
					Text: base[:ta.Start] + base[tb.Start:tb.End] + " " + base[ta.Start:ta.End] + base[tb.End:]})
			}
			for i := 0; i < 6; i++ {
				t := p.Toks[ch.Choose(n)]
				texts = append(texts, Fault{Kind: "tokdup", Ctx: "tokdup", At: t.Start,
					Text: base[:t.End] + " " + base[t.Start:t.End] + base[t.End:]})
			}
			for i := 0; i < 6; i++ {
				t, o := p.Toks[ch.Choose(n)], p.Toks[ch.Choose(n)]
				texts = append(texts, Fault{Kind: "tokrepl", Ctx: "tokrepl", At: t.Start,
					Text: base[:t.Start] + " " + base[o.Start:o.End] + " " + base[t.End:]})
			}
			for i := 0; i < 10; i++ {
				t := p.Toks[ch.Choose(n)]
				w := insertVocab[ch.Choose(len(insertVocab))]
				at := t.Start
				if ch.Bool(1, 2) {
					at = t.End
				}
				texts = append(texts, Fault{Kind: "tokins", Ctx: "tokins:" + w, At: at,
					Text: base[:at] + " " + w + " " + base[at:]})
			}
		}
		// deep nests: many simultaneously open brackets, blocks and function bodies, closed or cut off
		if ch.Bool(1, 2) {
			o := nestOpeners[ch.Choose(len(nestOpeners))]
			n := []int{17, 33, 40, 65, 130}[ch.Choose(5)]
			t := strings.Repeat(o[0], n) + " x " + strings.Repeat(o[1], n)
			ctx := "nest:closed"
			if ch.Bool(1, 2) {
				t = t[:len(strings.Repeat(o[0], n))+3+ch.Choose(len(strings.Repeat(o[1], n))+1)]
				ctx = "nest:cut"
			}
			texts = append(texts, Fault{Kind: "nest", Ctx: ctx, At: 0, Text: t})
		}
		// the stored text starts with bytes editors and tools leave there (byte-order marks, a shebang line, invisible
		// spaces, NUL ...): in front of the valid program and of a few of the faulted texts
		for i := 0; i < 4; i++ {
			pre := OddPrefixes[ch.Choose(len(OddPrefixes))]
			t := base
			ctx := "prefix"
			if i > 0 && len(enum) > 0 {
				ef := enum[ch.Choose(len(enum))]
				t, ctx = ef.Text, "prefix+"+ef.Ctx
			}
			texts = append(texts, Fault{Kind: "prefix", Ctx: ctx, At: 0, Text: pre + t})
		}
		res.Nontrivial = len(p.Toks) >= 4
	}
	res.Fingerprint = kernel.Hash64(base)
	seen := map[string]bool{}
	for i := range texts {
		f := &texts[i]
		st.Inc("fault." + f.Kind)
		for _, m := range xutil.AllModes {
			e.checkC11(f.Text, m, f, st, func(kind, sig, detail string) {
				if seen[sig] {
					return
				}
				seen[sig] = true
				res.Violations = append(res.Violations, kernel.Violation{Property: "C11", Kind: kind, Signature: sig,
					Detail:       fmt.Sprintf("%s\ninput (%s): %q\nbase program: %q", detail, f.Ctx, f.Text, base),
					Materialised: map[string]any{"input": f.Text, "fault": f.Ctx, "mode": m.String(), "base": base}})
			})
			res.Evals++
		}
	}
	res.Steps = res.Evals
	if len(base) <= 40 {
		res.Sample = map[string]any{"base": base, "texts": len(texts), "modes": 4, "example": texts[len(texts)/2].Text}
	}
	return res
}

func init() {
	kernel.Register(&kernel.EngineInfo{
		Name:       "faultsim",
		Properties: []string{"C11", "C12"},
		Level:      "fault_enumeration",
		New:        New,
		Tier: func(prop, tier string) kernel.TierSpec {
			if tier == "thorough" {
				return kernel.TierSpec{Runs: 3_000_000, WallSeconds: 1500, ShrinkSecs: 180, RunBudgetMs: 30000}
			}
			if prop == "C11" {
				return kernel.TierSpec{Runs: 4000, WallSeconds: 60, ShrinkSecs: 20, RunBudgetMs: 20000}
			}
			return kernel.TierSpec{Runs: 60000, WallSeconds: 45, ShrinkSecs: 20, RunBudgetMs: 20000}
		},
		Rule:      "each run = one seeded valid program (generator with ground truth, validated against xjs's lexer, goja and node) x EVERY single-token deletion, EVERY statement-separator removal and EVERY truncation offset (C11 adds seeded byte flips/inserts/deletes/duplications, double faults and random byte strings, x 4 parser modes); evaluations = fault cases (x modes for C11); distinct = distinct base program text; non-trivial = base program has at least 4 tokens",
		Real:      []string{"lexer", "parser (all modes)", "ast", "compiler (all configurations, C11)", "sourcemap (through the compiler)"},
		Simulated: []string{"the storage medium holding the source text: lost tokens, lost separators, truncation at every offset, byte corruption"},
		Oracles:   []string{"generator ground truth (token offsets, roles, separators)", "goja parser and node vm.Script as reference JavaScript parsers (C12 precondition only; both must reject)", "xjs's own plain lexer for the set of token ranges (C11)"},
		Assume: []string{
			"reduced form of the technique: fault-injection half only; nothing in these properties can be scheduled",
			"exhaustive over fault positions per program, sampled over programs",
			"C12 demands a rejection only when BOTH reference parsers reject the corrupted text; disagreements are skipped and counted",
			"valid programs rejected by a reference or by xjs strict mode are discarded and counted (acceptance of valid programs is C02, not claimed)",
		},
		RequiredProbes: map[string][]string{
			"C12": {"fault.delete", "fault.unsep", "fault.trunc", "fault.trunc_in_string", "fault.trunc_in_backtick", "fault.trunc_in_bracket", "fault.trunc_in_block", "c12.rejected_ok"},
			"C11": {"fault.delete", "fault.unsep", "fault.trunc", "fault.byte", "fault.double", "fault.random", "fault.prefix", "fault.nest", "c11.error_free", "c11.with_errors", "c11.compiles"},
		},
	})
}
