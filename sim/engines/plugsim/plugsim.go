// Package plugsim decides C04 and C16: the simulator plays every interceptor
// party (0..8 token, statement and expression interceptors, installed directly
// or through Install, in a seeded order) and decides each invocation's action
// (pass through / re-enter the parser / observe) from the seed. The callback
// history is recorded with a global sequence number and checked afterwards.
package plugsim

import (
	"encoding/json"
	"fmt"
	"strings"

	"github.com/xjslang/xjs/ast"
	"github.com/xjslang/xjs/lexer"
	"github.com/xjslang/xjs/parser"
	"github.com/xjslang/xjs/token"

	"verifsim/engines/faultsim"
	"verifsim/gen"
	"verifsim/hooks"
	"verifsim/kernel"
	"verifsim/xutil"
)

type Engine struct{ tier string }

func New(tier string) kernel.Engine { return &Engine{tier: tier} }
func (e *Engine) Name() string      { return "plugsim" }
func (e *Engine) Close()            {}

// ---- recorded history ----------------------------------------------------------

type event struct {
	seq   int
	kind  byte // 'T' token, 'S' statement, 'E' expression
	idx   int  // party index within its kind (installation order)
	phase byte // 'e' enter, 'n' next() called, 'x' exit
	ord   int  // ordinal of CurrentToken (S/E) or pull number (T)
	re    bool // party re-entered instead of calling next (E only)
}

type ctxObs struct {
	kind   byte
	ord    int
	inFunc bool
	ctx    parser.ContextType
	tokLit string
	// bracketed: a plugin's own context value is on the stack; the innermost answer is the plugin's business
	bracketed bool
	// bracketFunc: one of the plugin's open brackets pushed FunctionContext: "inside a function" holds there
	bracketFunc bool
}

type tokObs struct {
	pull      int
	line, col int
	ch        byte
	tok       token.Token
	outer     bool
}

type recorder struct {
	events   []event
	seq      int
	pulls    int
	posIndex map[token.Position]int // plain-lexer token start -> ordinal
	nTok     int
	ctxs     []ctxObs
	toks     []tokObs
	exprRet  []exprRet
	stmtRet  []stmtRet
	panicked string
	tDepth   int
	// reentered: ordinals of the statement steps the innermost party requested through ParseStatement()
	reentered []int
	// imbalance: first parse step that returned with a different context than it was entered with
	imbalance string
	// pushMismatch: a plugin's own PushContext was not reflected by the answers straight afterwards
	pushMismatch string
}

type exprRet struct {
	entry token.Token
	node  ast.Expression
}
type stmtRet struct {
	entry token.Token
	node  ast.Statement
}

func (r *recorder) add(kind byte, idx int, phase byte, ord int, re bool) {
	r.events = append(r.events, event{seq: r.seq, kind: kind, idx: idx, phase: phase, ord: ord, re: re})
	r.seq++
}

func (r *recorder) ordinal(t token.Token) int {
	if t.Type == token.EOF {
		if i, ok := r.posIndex[t.Start]; ok {
			return i
		}
		return r.nTok - 1
	}
	if i, ok := r.posIndex[t.Start]; ok {
		return i
	}
	return -1
}

// ---- installation ---------------------------------------------------------------

type install struct {
	kT, kS, kE int
	viaInstall []bool // per registration, in order
	order      []byte // registration order over kinds, e.g. "STEETS..."
	// action policy for expression parties: 0 all pass, 1 all re-enter, 2 per-invocation choice
	policy   int
	reenterP int // probability numerator /8 for policy 2
	// specific: a re-entering party may call the public parse function for the current token's kind
	// (ParseFunctionExpression, ParseGroupedExpression, ...) instead of ParsePrefixExpression
	specific bool
	// stmtReenter (C16 only): a statement party may parse its step through the public ParseStatement()
	// (a plugin that parses a body itself) instead of calling next()
	stmtReenter bool
	// stmtChain (C04 only): the innermost statement party may parse its step through the public ParseStatement();
	// that is a parse step like any other: the whole chain must run for it, once, in order
	stmtChain bool
	// sparse (C16 only): the plugin asks the context questions only now and then (at seeded invocations) instead
	// of at every step; nothing else in the run asks them. Answers must not depend on when one last asked.
	sparse bool
	// bracket (C16 only): a statement party may wrap its step in a context value of its own
	// (PushContext(7) ... PopContext()), as a plugin that introduces a new kind of scope does
	bracket bool
	// bailout (C16 only): one nested statement-interceptor invocation panics, the outermost one recovers
	bailout bool
	// subParse: parties occasionally run an independent nested parser before calling next()
	subParse bool
	// syntax (C16 only): a plugin that defines syntax of its own with the public parse helpers is installed first:
	// `lambda(a, b) expr` (ParseFunctionParameters + ParseExpression) and `unless (c) { ... }` (ParseBlockStatement)
	syntax bool
	// builds: how many parsers are built (and parsed) from the same builder; lateAdds[b] is the
	// kind of party installed on the builder just before build b (0 = none)
	builds   int
	lateAdds []byte
	// earlyLate[b]: the party of lateAdds[b] is installed on the builder while parser b-1 is built but has not run yet
	// (between Build and ParseProgram): parser b-1 must run as it was built, parser b has the new party
	earlyLate []bool
}

func drawInstall(ch *kernel.Chooser, forC16 bool) install {
	in := install{}
	pick := func() int {
		switch ch.Weighted(3, 3, 2, 2) {
		case 0:
			return ch.Choose(3) // 0..2
		case 1:
			return 1 + ch.Choose(4) // 1..4
		case 2:
			return 8
		default:
			return ch.Choose(9)
		}
	}
	in.kT, in.kS, in.kE = pick(), pick(), pick()
	if forC16 {
		// the questions are asked from statement and expression parties; usually both kinds are present, but a plugin
		// set with only one of the two kinds is as legal (answers must not depend on which kinds are installed)
		if in.kS == 0 {
			in.kS = 1
		}
		if in.kE == 0 {
			in.kE = 1
		}
		switch ch.Weighted(6, 1, 1) {
		case 1:
			in.kS = 0
		case 2:
			in.kE = 0
		}
	}
	// registration order: a seeded interleaving of the three kinds
	rem := map[byte]int{'T': in.kT, 'S': in.kS, 'E': in.kE}
	for rem['T']+rem['S']+rem['E'] > 0 {
		w := []int{rem['T'], rem['S'], rem['E']}
		k := "TSE"[ch.Weighted(w...)]
		rem[k]--
		in.order = append(in.order, k)
		in.viaInstall = append(in.viaInstall, ch.Bool(1, 3))
	}
	in.policy = ch.Weighted(4, 2, 5)
	in.reenterP = 1 + ch.Choose(7)
	in.subParse = ch.Bool(1, 4)
	in.specific = ch.Bool(1, 3)
	in.bailout = forC16 && ch.Bool(1, 6)
	in.stmtReenter = forC16 && ch.Bool(1, 4)
	in.stmtChain = !forC16 && ch.Bool(1, 5)
	in.bracket = forC16 && ch.Bool(1, 5)
	if forC16 && ch.Bool(1, 4) {
		in.sparse = true
		in.bracket, in.bailout = false, false // these parties ask the questions themselves
	}
	in.builds = 1 + ch.Weighted(5, 3, 2)
	in.lateAdds = make([]byte, in.builds)
	in.earlyLate = make([]bool, in.builds)
	for b := 1; b < in.builds; b++ {
		if ch.Bool(1, 2) {
			in.lateAdds[b] = "TSE"[ch.Choose(3)]
			in.earlyLate[b] = ch.Bool(1, 3)
		}
	}
	return in
}

func (in install) String() string {
	return fmt.Sprintf("token=%d stmt=%d expr=%d order=%s policy=%d nested-parse=%v specific=%v bailout=%v builds=%d late=%q", in.kT, in.kS, in.kE, string(in.order), in.policy, in.subParse, in.specific, in.bailout, in.builds, string(in.lateAdds))
}

// installation: one pair of builders with the simulated parties installed so far.
// Parties can be added later (between two Build calls); actions are drawn from ch at invocation time.
type installation struct {
	lb            *lexer.Builder
	pb            *parser.Builder
	in            *install
	m             xutil.Mode
	ch            *kernel.Chooser
	r             *recorder
	st            *kernel.Stats
	ti, si, ei    int
	exprDepth     int
	stmtDepth     int
	bailed        bool // a bailout happened during the current parse
	unwinding     bool // a bail-out panic is travelling up the stack
	muted         bool // parties pass through without recording or acting (nested sibling parse)
	inStmtReenter bool
	bracketDepth  int
	bracketFunc   int // how many of the open plugin brackets pushed FunctionContext
}

var oddPrefixes = []string{"\xEF\xBB\xBF", "\xEF\xBB\xBF// c\n", "\uFEFF\n", "#!/usr/bin/env xjs\n", "\x00", "\u200b", "\u00a0", "\r\n", "\t\v\f ", "/**/", "<!-- x\n", "\xFF\xFE", "\u2028"}

// specificStatement parses the step with the public parse function for the current token's kind, the way a
// plugin that handles `function` or `{` itself does (typed nil results are turned into plain nil).
func specificStatement(p *parser.Parser) ast.Statement {
	switch p.CurrentToken.Type {
	case token.LET:
		if s := p.ParseLetStatement(); s != nil {
			return s
		}
	case token.FUNCTION:
		if s := p.ParseFunctionStatement(); s != nil {
			return s
		}
	case token.RETURN:
		if s := p.ParseReturnStatement(); s != nil {
			return s
		}
	case token.IF:
		if s := p.ParseIfStatement(); s != nil {
			return s
		}
	case token.WHILE:
		if s := p.ParseWhileStatement(); s != nil {
			return s
		}
	case token.FOR:
		if s := p.ParseForStatement(); s != nil {
			return s
		}
	case token.LBRACE:
		if s := p.ParseBlockStatement(); s != nil {
			return s
		}
	default:
		if s := p.ParseExpressionStatement(); s != nil {
			return s
		}
	}
	return nil
}

type bailoutPanic struct{}

// recover0: the balance of an expression step is only judged when it returned normally
// (a bail-out panic passing through leaves inner steps unfinished by design).
func recover0(x *installation) bool { return !x.unwinding }

// specificPrefix parses the prefix with the public parse function for the current token's kind.
func specificPrefix(p *parser.Parser) ast.Expression {
	switch p.CurrentToken.Type {
	case token.IDENT:
		return p.ParseIdentifier()
	case token.INT:
		return p.ParseIntegerLiteral()
	case token.FLOAT:
		return p.ParseFloatLiteral()
	case token.STRING:
		return p.ParseStringLiteral()
	case token.RAW_STRING:
		return p.ParseMultiStringLiteral()
	case token.TRUE, token.FALSE:
		return p.ParseBooleanLiteral()
	case token.NULL:
		return p.ParseNullLiteral()
	case token.NOT, token.MINUS, token.INCREMENT, token.DECREMENT:
		return p.ParseUnaryExpression()
	case token.LPAREN:
		return p.ParseGroupedExpression()
	case token.LBRACKET:
		return p.ParseArrayLiteral()
	case token.LBRACE:
		return p.ParseObjectLiteral()
	case token.FUNCTION:
		return p.ParseFunctionExpression()
	}
	return p.ParsePrefixExpression()
}

func newInstallation(in *install, m xutil.Mode, ch *kernel.Chooser, r *recorder, st *kernel.Stats) *installation {
	lb := lexer.NewBuilder()
	pb := parser.NewBuilder(lb).WithTolerantMode(m.Tolerant).WithSmartSemicolon(m.Smart)
	if in.syntax {
		installSyntaxPlugin(pb)
	}
	return &installation{lb: lb, pb: pb, in: in, m: m, ch: ch, r: r, st: st}
}

type lambdaNode struct {
	Tok    token.Token
	Params []*ast.Identifier
	Body   ast.Expression
}

func (n *lambdaNode) WriteTo(cw *ast.CodeWriter) { cw.WriteString("lambda") }
func (n *lambdaNode) Precedence() int            { return parser.LOWEST }

// installSyntaxPlugin: syntax defined by a plugin, written with the parser's public helpers the way the README's
// plugins are. Nothing in it touches the context stack: what the helpers push they must pop.
func installSyntaxPlugin(pb *parser.Builder) {
	pb.UseExpressionInterceptor(func(p *parser.Parser, next func() ast.Expression) ast.Expression {
		if p.CurrentToken.Type == token.IDENT && p.CurrentToken.Literal == "lambda" && p.PeekToken.Type == token.LPAREN {
			n := &lambdaNode{Tok: p.CurrentToken}
			p.NextToken() // (
			n.Params = p.ParseFunctionParameters()
			p.NextToken() // first token of the body expression
			n.Body = p.ParseExpression()
			return n
		}
		return next()
	})
	pb.UseStatementInterceptor(func(p *parser.Parser, next func() ast.Statement) ast.Statement {
		if p.CurrentToken.Type == token.IDENT && p.CurrentToken.Literal == "unless" && p.PeekToken.Type == token.LPAREN {
			st := &ast.IfStatement{Token: p.CurrentToken}
			p.NextToken() // (
			p.NextToken()
			st.Condition = p.ParseExpression()
			if !p.ExpectToken(token.RPAREN) || !p.ExpectToken(token.LBRACE) {
				return nil
			}
			st.ThenBranch = p.ParseBlockStatement()
			return st
		}
		return next()
	})
}

var syntaxPieces = []string{
	"lambda(a, b) a + b",
	"let k = lambda(a) a * 2",
	"f(lambda() 1, 2)",
	"unless (a) { u; v = 1 }",
	"unless (a) {\n unless (b) { w }\n x2\n}",
	"unless (lambda(q) q) { let z = lambda(a, b) b\n z }",
	"unless (a) { }",
	"lambda() 0",
}

func syntaxPrefix(ch *kernel.Chooser) string {
	var sb strings.Builder
	for i, n := 0, 1+ch.Choose(3); i < n; i++ {
		piece := syntaxPieces[ch.Choose(len(syntaxPieces))]
		sb.WriteString(piece)
		// an expression-like piece always ends in `;`: left open, its last operand would continue into a program that
		// starts with `[` or `(` on the next line (as in JavaScript), and the prefix would no longer be self-contained
		if !strings.HasSuffix(piece, "}") {
			sb.WriteString(";")
		}
		sb.WriteString("\n")
	}
	return sb.String()
}

// build constructs builders with all parties of in installed.
func build(in install, m xutil.Mode, ch *kernel.Chooser, r *recorder, st *kernel.Stats) *parser.Builder {
	x := newInstallation(&in, m, ch, r, st)
	for n, k := range in.order {
		x.add(k, in.viaInstall[n])
	}
	return x.pb
}

// subProgram is parsed by a nested, independent parser from inside an interceptor
// (a plugin that parses embedded code): it must not disturb the outer parser.
const subProgram = "function q(u) { if (u) { let z = function () { return { k: [u, 1] } }\n } while (u) { u-- } }\nq(1)"

func (x *installation) nestedParse() {
	x.st.Inc("probe.nested_parser_run_inside_interceptor")
	if x.ch.Bool(1, 2) {
		// a sibling: another parser of the SAME builder (its parties stay silent meanwhile)
		x.st.Inc("probe.nested_parser_built_from_the_same_builder")
		x.muted = true
		xutil.Parse(x.pb, subProgram)
		x.muted = false
		return
	}
	xutil.Parse(xutil.PlainBuilder(x.m), subProgram)
}

// installVia installs one party directly or through a plugin. Plugins come in the spellings users
// write: using the builder they are handed, using the builder variable they closed over, and
// presets that install further plugins from inside their own callback.
func (x *installation) installVia(via bool, direct func(), onArg func(b *parser.Builder)) {
	if !via {
		direct()
		return
	}
	x.st.Inc("probe.installed_via_plugin")
	pb := x.pb
	switch x.ch.Choose(4) {
	case 0:
		pb.Install(onArg)
	case 1:
		x.st.Inc("probe.plugin_uses_captured_builder")
		pb.Install(func(*parser.Builder) { direct() })
	case 2:
		x.st.Inc("probe.plugin_installs_nested_plugin")
		pb.Install(func(b *parser.Builder) { b.Install(onArg) })
	default:
		x.st.Inc("probe.plugin_installs_nested_plugin")
		x.st.Inc("probe.plugin_uses_captured_builder")
		pb.Install(func(*parser.Builder) { pb.Install(func(*parser.Builder) { direct() }) })
	}
}

func (x *installation) add(k byte, via bool) {
	lb, pb, in, ch, r, st := x.lb, x.pb, x.in, x.ch, x.r, x.st
	{
		switch k {
		case 'T':
			idx := x.ti
			x.ti++
			f := func(l *lexer.Lexer, next func() token.Token) token.Token {
				if x.muted {
					return next() // a sibling parser of the same builder is at work inside an interceptor
				}
				// the property fixes no order for token interceptors: whichever party runs outermost counts the pull
				outermost := r.tDepth == 0
				if outermost {
					r.pulls++
				}
				r.tDepth++
				pull := r.pulls
				r.add('T', idx, 'e', pull, false)
				line, col, c := l.Line, l.Column, l.CurrentChar
				r.add('T', idx, 'n', pull, false)
				t := next()
				r.add('T', idx, 'x', pull, false)
				r.tDepth--
				r.toks = append(r.toks, tokObs{pull: pull, line: line, col: col, ch: c, tok: t, outer: outermost})
				return t
			}
			// token interceptors are installed on the lexer builder; "through plugins" = a parser plugin that reaches the lexer builder
			x.installVia(via, func() { lb.UseTokenInterceptor(f) }, func(b *parser.Builder) { b.LexerBuilder.UseTokenInterceptor(f) })
		case 'S':
			idx := x.si
			x.si++
			f := func(p *parser.Parser, next func() ast.Statement) (result ast.Statement) {
				if x.muted {
					return next()
				}
				entry := p.CurrentToken
				ord := r.ordinal(entry)
				var c0 parser.ContextType
				var f0 bool
				if !in.sparse {
					c0, f0 = p.CurrentContext(), p.IsInFunction()
				}
				defer func() {
					if in.sparse {
						return
					}
					// a parse step, successful or not, leaves the context as it found it
					if c1, f1 := p.CurrentContext(), p.IsInFunction(); (c1 != c0 || f1 != f0) && r.imbalance == "" {
						r.imbalance = fmt.Sprintf("statement step at token %s: context before (%d, inFunction=%v), after (%d, inFunction=%v)", xutil.TokString(entry), int(c0), f0, int(c1), f1)
					}
				}()
				if in.bailout {
					x.stmtDepth++
					depth := x.stmtDepth
					defer func() {
						x.stmtDepth = depth - 1
						if depth == 1 && idx == 0 {
							// the usual bail-out idiom: the outermost party of the plugin recovers what an inner one threw
							if rec := recover(); rec != nil {
								if _, ok := rec.(bailoutPanic); !ok {
									panic(rec)
								}
								st.Inc("probe.bailout_recovered_by_outer_interceptor")
								x.unwinding = false
								result = nil
							}
						}
					}()
					if depth >= 2 && !x.bailed && ch.Bool(1, 6) {
						x.bailed = true
						if p.IsInFunction() {
							st.Inc("probe.bailout_thrown_inside_function_body")
						}
						x.unwinding = true
						panic(bailoutPanic{})
					}
				}
				r.add('S', idx, 'e', ord, false)
				if idx == 0 && (!in.sparse || ch.Bool(1, 4)) {
					r.ctxs = append(r.ctxs, ctxObs{kind: 'S', ord: ord, inFunc: p.IsInFunction(), ctx: p.CurrentContext(), tokLit: entry.Literal, bracketed: x.bracketDepth > 0, bracketFunc: x.bracketFunc > 0})
					if in.sparse {
						st.Inc("probe.context_asked_only_now_and_then")
					}
				}
				if in.bracket && idx == x.si-1 && ch.Bool(1, 8) {
					// innermost party: the step runs inside the plugin's own context value
					st.Inc("probe.step_bracketed_by_plugin_context_value")
					var pushed parser.ContextType
					switch ch.Choose(4) {
					case 0:
						pushed = parser.ContextType(7)
					case 1:
						// a plugin scope that counts as a function (a lambda with an expression body, say)
						pushed = parser.FunctionContext
						x.bracketFunc++
						defer func() { x.bracketFunc-- }()
					case 2:
						// a plugin construct whose body counts as top level again (a module body, say)
						pushed = parser.GlobalContext
						st.Inc("probe.step_bracketed_by_global_or_block_value")
					case 3:
						pushed = parser.BlockContext
						st.Inc("probe.step_bracketed_by_global_or_block_value")
					}
					f0 := p.IsInFunction()
					p.PushContext(pushed)
					if c := p.CurrentContext(); c != pushed && r.pushMismatch == "" {
						r.pushMismatch = fmt.Sprintf("after PushContext(%d) at token %s CurrentContext() answers %d", int(pushed), xutil.TokString(entry), int(c))
					}
					if f := p.IsInFunction(); f != (f0 || pushed == parser.FunctionContext) && r.pushMismatch == "" {
						r.pushMismatch = fmt.Sprintf("after PushContext(%d) at token %s IsInFunction() answers %v, before the push it answered %v", int(pushed), xutil.TokString(entry), f, f0)
					}
					x.bracketDepth++
					defer func() {
						x.bracketDepth--
						p.PopContext()
					}()
				}
				if in.subParse && ch.Bool(1, 12) {
					x.nestedParse()
				}
				r.add('S', idx, 'n', ord, false)
				var s ast.Statement
				if in.stmtChain && idx == x.si-1 && !x.inStmtReenter && ch.Bool(1, 5) {
					x.inStmtReenter = true
					st.Inc("probe.statement_step_requested_through_public_ParseStatement")
					r.reentered = append(r.reentered, ord)
					s = p.ParseStatement()
					x.inStmtReenter = false
				} else if in.stmtReenter && !x.inStmtReenter && ch.Bool(1, 6) {
					// the whole chain runs again, nested, for this step; this party passes through the second time
					x.inStmtReenter = true
					st.Inc("probe.statement_parsed_through_public_ParseStatement")
					if !in.sparse && p.IsInFunction() {
						st.Inc("probe.public_ParseStatement_inside_function_body")
					}
					if ch.Bool(1, 2) {
						s = p.ParseStatement()
					} else {
						st.Inc("probe.statement_parsed_through_specific_public_parse_function")
						s = specificStatement(p)
					}
					x.inStmtReenter = false
				} else {
					s = next()
				}
				r.add('S', idx, 'x', ord, false)
				if idx == 0 {
					r.stmtRet = append(r.stmtRet, stmtRet{entry: entry, node: s})
				}
				return s
			}
			x.installVia(via, func() { pb.UseStatementInterceptor(f) }, func(b *parser.Builder) { b.UseStatementInterceptor(f) })
		case 'E':
			idx := x.ei
			x.ei++
			f := func(p *parser.Parser, next func() ast.Expression) ast.Expression {
				if x.muted {
					return next()
				}
				entry := p.CurrentToken
				ord := r.ordinal(entry)
				var c0 parser.ContextType
				var f0 bool
				if !in.sparse {
					c0, f0 = p.CurrentContext(), p.IsInFunction()
				}
				defer func() {
					if in.sparse {
						return
					}
					if c1, f1 := p.CurrentContext(), p.IsInFunction(); (c1 != c0 || f1 != f0) && r.imbalance == "" && recover0(x) {
						r.imbalance = fmt.Sprintf("expression step at token %s: context before (%d, inFunction=%v), after (%d, inFunction=%v)", xutil.TokString(entry), int(c0), f0, int(c1), f1)
					}
				}()
				re := false
				switch in.policy {
				case 1:
					re = true
				case 2:
					re = ch.Bool(in.reenterP, 8)
				}
				r.add('E', idx, 'e', ord, re)
				if idx == 0 {
					if !in.sparse || ch.Bool(1, 6) {
						r.ctxs = append(r.ctxs, ctxObs{kind: 'E', ord: ord, inFunc: p.IsInFunction(), ctx: p.CurrentContext(), tokLit: entry.Literal, bracketed: x.bracketDepth > 0, bracketFunc: x.bracketFunc > 0})
					}
				}
				x.exprDepth++
				if in.subParse && ch.Bool(1, 24) {
					x.nestedParse()
				}
				var e ast.Expression
				if re {
					st.Inc("probe.reentrant_invocations")
					if x.exprDepth >= 3 {
						st.Inc("probe.reentrant_at_depth_ge3")
					}
					if idx+1 < x.ei {
						st.Inc("probe.reentrant_party_before_passthrough_party")
					}
					var left ast.Expression
					if in.specific && (p.CurrentToken.Type == token.MINUS || p.CurrentToken.Type == token.NOT) && ch.Bool(1, 2) {
						// the plugin builds the unary node itself and asks for the operand through the public,
						// precedence-parametrised entry point: that operand is a parse step like any other
						st.Inc("probe.operand_requested_through_ParseExpressionWithPrecedence")
						u := &ast.UnaryExpression{Token: p.CurrentToken, Operator: p.CurrentToken.Literal}
						p.NextToken()
						u.Right = p.ParseExpressionWithPrecedence(parser.UNARY)
						left = u
					} else if in.specific && ch.Bool(1, 2) {
						st.Inc("probe.reentrant_via_specific_public_parse_function")
						if p.CurrentToken.Type == token.FUNCTION {
							st.Inc("probe.reentrant_via_ParseFunctionExpression")
						}
						left = specificPrefix(p)
					} else {
						left = p.ParsePrefixExpression()
					}
					e = p.ParseRemainingExpression(left)
				} else {
					r.add('E', idx, 'n', ord, false)
					e = next()
				}
				x.exprDepth--
				r.add('E', idx, 'x', ord, re)
				if idx == 0 {
					r.exprRet = append(r.exprRet, exprRet{entry: entry, node: e})
				}
				return e
			}
			x.installVia(via, func() { pb.UseExpressionInterceptor(f) }, func(b *parser.Builder) { b.UseExpressionInterceptor(f) })
		}
	}
}

// ---- history checker ---------------------------------------------------------------

type group struct {
	ord     int
	entered int  // highest party index entered
	nexted  int  // highest party index that called next (-1 none)
	exited  int  // lowest party index that exited (k = none yet)
	re      bool // deepest entered party re-enters (no next expected)
}

// checkHistory verifies, per kind, that invocations are well nested, exactly
// once, in installation order, and that all parties of a group saw the same
// current token. Returns "" or a description; groupOrds receives group-start ordinals.
func checkHistory(events []event, kind byte, k int) (problem string, groupOrds []int) {
	var stack []*group
	for _, ev := range events {
		if ev.kind != kind {
			continue
		}
		var top *group
		if len(stack) > 0 {
			top = stack[len(stack)-1]
		}
		switch ev.phase {
		case 'e':
			if ev.idx == 0 {
				if top != nil {
					// a nested group may only start inside the innermost active party
					inner := (top.re && top.exited > top.entered) || (top.entered == k-1 && top.nexted == k-1 && top.exited > top.entered)
					if !inner {
						return fmt.Sprintf("a new %c step (token #%d) began while the step at token #%d had invoked only parties 0..%d of %d (party %d never ran)", kind, ev.ord, top.ord, top.entered, k, top.entered+1), groupOrds
					}
				}
				stack = append(stack, &group{ord: ev.ord, entered: 0, nexted: -1, exited: k, re: ev.re})
				groupOrds = append(groupOrds, ev.ord)
				continue
			}
			if top == nil {
				return fmt.Sprintf("party %d of kind %c ran (token #%d) although party 0 did not run first", ev.idx, kind, ev.ord), groupOrds
			}
			if ev.idx != top.entered+1 || top.nexted != top.entered || top.exited <= top.entered {
				return fmt.Sprintf("party %d of kind %c entered out of installation order at token #%d (last entered %d, last next() by %d)", ev.idx, kind, ev.ord, top.entered, top.nexted), groupOrds
			}
			if ev.ord != top.ord {
				return fmt.Sprintf("party %d of kind %c saw token #%d as current token, party 0 saw #%d in the same step", ev.idx, kind, ev.ord, top.ord), groupOrds
			}
			top.entered = ev.idx
			top.re = ev.re
		case 'n':
			if top == nil || ev.idx != top.entered || top.nexted >= ev.idx {
				return fmt.Sprintf("next() bookkeeping broken for party %d of kind %c at token #%d", ev.idx, kind, ev.ord), groupOrds
			}
			top.nexted = ev.idx
		case 'x':
			if top == nil {
				return fmt.Sprintf("party %d of kind %c exited with no open step", ev.idx, kind), groupOrds
			}
			want := top.exited - 1
			if top.exited == k {
				want = top.entered
			}
			if ev.idx != want {
				return fmt.Sprintf("party %d of kind %c exited out of order at token #%d (expected party %d)", ev.idx, kind, ev.ord, want), groupOrds
			}
			// when the deepest party exits, every party up to k-1 must have run unless it re-entered
			if top.exited == k && !top.re && top.entered != k-1 {
				return fmt.Sprintf("step at token #%d: next() of party %d returned without party %d having run (%d %c interceptors installed)", top.ord, top.entered, top.entered+1, k, kind), groupOrds
			}
			top.exited = ev.idx
			if ev.idx == 0 {
				stack = stack[:len(stack)-1]
			}
		}
	}
	if len(stack) != 0 {
		return fmt.Sprintf("%d %c steps never completed", len(stack), kind), groupOrds
	}
	return "", groupOrds
}

// leftmost token of a node (first token of the construct).
func leftmostExpr(e ast.Expression) (token.Token, bool) { return xutil.LeftmostExprToken(e) }

// exprChildren lists, with their role, the sub-expressions that a parser obtains through an expression
// parse step of its own (operands, arguments, elements, values, conditions, member properties).
func exprChildren(n any, out *[]roleExpr) {
	add := func(role string, e ast.Expression) {
		if e != nil && !xutil.IsNilValue(e) {
			*out = append(*out, roleExpr{role, e})
		}
	}
	switch x := n.(type) {
	case *ast.LetStatement:
		add("let-value", x.Value)
	case *ast.LetExpression:
		add("let-value", x.Value)
	case *ast.ReturnStatement:
		add("return-value", x.ReturnValue)
	case *ast.ExpressionStatement:
		add("statement-expression", x.Expression)
	case *ast.IfStatement:
		add("if-condition", x.Condition)
	case *ast.WhileStatement:
		add("while-condition", x.Condition)
	case *ast.ForStatement:
		add("for-condition", x.Condition)
		add("for-update", x.Update)
	case *ast.BinaryExpression:
		add("binary-right", x.Right)
	case *ast.UnaryExpression:
		add("unary-operand", x.Right)
	case *ast.GroupedExpression:
		add("grouped", x.Expression)
	case *ast.CallExpression:
		for _, a := range x.Arguments {
			add("call-argument", a)
		}
	case *ast.MemberExpression:
		if x.Computed {
			add("index", x.Property)
		} else {
			add("member-property", x.Property)
		}
	case *ast.AssignmentExpression:
		add("assignment-value", x.Value)
	case *ast.CompoundAssignmentExpression:
		add("assignment-value", x.Value)
	case *ast.ArrayLiteral:
		for _, e := range x.Elements {
			add("array-element", e)
		}
	case *ast.ObjectLiteral:
		for _, pr := range x.Properties {
			add("object-value", pr.Value)
		}
	}
}

type roleExpr struct {
	role string
	e    ast.Expression
}

func leftmostStmt(s ast.Statement) (token.Token, bool) {
	switch x := s.(type) {
	case *ast.LetStatement:
		if x == nil {
			return token.Token{}, false
		}
		return x.Token, true
	case *ast.ReturnStatement:
		if x == nil {
			return token.Token{}, false
		}
		return x.Token, true
	case *ast.FunctionDeclaration:
		if x == nil {
			return token.Token{}, false
		}
		return x.Token, true
	case *ast.BlockStatement:
		if x == nil {
			return token.Token{}, false
		}
		return x.Token, true
	case *ast.IfStatement:
		if x == nil {
			return token.Token{}, false
		}
		return x.Token, true
	case *ast.WhileStatement:
		if x == nil {
			return token.Token{}, false
		}
		return x.Token, true
	case *ast.ForStatement:
		if x == nil {
			return token.Token{}, false
		}
		return x.Token, true
	case *ast.ExpressionStatement:
		if x == nil || x.Expression == nil {
			return token.Token{}, false
		}
		return leftmostExpr(x.Expression)
	}
	return token.Token{}, false
}

// ---- one observed parse ---------------------------------------------------------------

type outcome struct {
	tokens  string
	tree    string
	errors  string
	errNil  bool
	compact string
	pretty  string
	panic   string
	ctxTop  parser.ContextType
	inFunc  bool
	prog    *ast.Program
}

func observe(pb *parser.Builder, text string, r *recorder) outcome {
	o := xutil.Parse(pb, text)
	out := outcome{}
	if o.Panic != nil {
		out.panic = fmt.Sprintf("%v @ %s", o.Panic, xutil.TopFrames(o.Stack, 3))
		return out
	}
	out.tree = xutil.Dump(o.Program)
	out.prog = o.Program
	out.errors = xutil.ErrorsString(o.Errors)
	out.errNil = o.Err == nil
	if o.Parser != nil {
		out.ctxTop = o.Parser.CurrentContext()
		out.inFunc = o.Parser.IsInFunction()
	}
	if o.Err == nil && len(o.Errors) == 0 {
		c, pan, _ := xutil.Compile(xutil.CompilerConfig{}, o.Program)
		if pan != nil {
			out.compact = fmt.Sprintf("PANIC %v", pan)
		} else {
			out.compact = c.Code
		}
		// "output" includes the source map: the pretty configuration is compiled with it
		c, pan, _ = xutil.Compile(xutil.CompilerConfig{Pretty: true, Indent: 2, Semi: true, SourceMap: true}, o.Program)
		if pan != nil {
			out.pretty = fmt.Sprintf("PANIC %v", pan)
		} else {
			out.pretty = c.Code
			if c.SourceMap != nil {
				b, _ := json.Marshal(c.SourceMap)
				out.pretty += "\n--map--\n" + string(b)
			}
		}
	}
	return out
}

func lineColOffset(text string, line, col int) int {
	off := 0
	for l := 0; l < line; l++ {
		i := strings.IndexByte(text[off:], '\n')
		if i < 0 {
			return -1
		}
		off += i + 1
	}
	return off + col
}

func genCfg(ch *kernel.Chooser, forC16, big bool) gen.Config {
	cfg := gen.Config{MaxTokens: 20 + ch.Choose(50), MaxStmts: 1 + ch.Choose(4), MaxDepth: 2 + ch.Choose(5), MaxNest: 1 + ch.Choose(4),
		Comments: ch.Bool(1, 2), Multibyte: ch.Bool(1, 3), FuncHeavy: ch.Bool(1, 3)}
	if forC16 {
		cfg.FuncHeavy = ch.Bool(3, 4)
		cfg.MaxNest = 2 + ch.Choose(7)
		cfg.MaxTokens = 30 + ch.Choose(90)
		if ch.Bool(1, 10) {
			// "at any depth": one forced chain of nested blocks and functions, far beyond what sampling reaches
			cfg.DeepNest = 8 + ch.Choose(56)
			if ch.Bool(1, 16) {
				cfg.DeepNest = 100 + ch.Choose(450) // beyond any plausible fixed-size stack (64, 256, 1024 entries)
			}
			if ch.Bool(1, 3) {
				// the outer levels are plain blocks: the first function of the chain is opened under that many blocks
				cfg.DeepBlocksFirst = 1 + ch.Choose(cfg.DeepNest)
				if ch.Bool(1, 3) {
					// ... under more blocks than a machine word has bits
					if cfg.DeepNest < 70 {
						cfg.DeepNest = 70 + ch.Choose(40)
					}
					cfg.DeepBlocksFirst = 63 + ch.Choose(cfg.DeepNest-66)
				}
			} else if ch.Bool(1, 4) {
				// the outer levels are functions, blocks only below them
				cfg.DeepFuncsFirst = 1 + ch.Choose(cfg.DeepNest)
			}
		}
	} else if ch.Bool(1, 40) {
		cfg.DeepNest = 4 + ch.Choose(30)
	}
	if big && cfg.DeepNest == 0 && ch.Bool(1, 4) {
		// thorough tier: deeper bounds for a quarter of the programs
		cfg.MaxTokens = 80 + ch.Choose(160)
		cfg.MaxStmts = 1 + ch.Choose(8)
		cfg.MaxDepth = 3 + ch.Choose(7)
		cfg.MaxNest = 2 + ch.Choose(9)
	}
	return cfg
}

var substLevels = map[string]int{"||": parser.LOGICAL_OR, "&&": parser.LOGICAL_AND, "==": parser.EQUALITY, "!=": parser.EQUALITY, "<": parser.COMPARISON, ">": parser.COMPARISON,
	"<=": parser.COMPARISON, ">=": parser.COMPARISON, "+": parser.SUM, "-": parser.SUM, "*": parser.PRODUCT, "/": parser.PRODUCT, "%": parser.PRODUCT}

type opStandIn struct {
	Tok  token.Token
	L, R ast.Expression
	Lvl  int
}

func (n *opStandIn) WriteTo(cw *ast.CodeWriter) {
	n.L.WriteTo(cw)
	cw.WriteString(" " + n.Tok.Literal + " ")
	n.R.WriteTo(cw)
}
func (n *opStandIn) Precedence() int { return n.Lvl }

// operatorScenario: one built-in binary operator of a valid program is replaced by a registered infix
// operator of the same level. Interceptors must see exactly the same parse steps (statements and
// expressions, by token ordinal) as in the original program: the operands of a registered operator are
// parse steps like any others.
func (e *Engine) operatorScenario(ch *kernel.Chooser, st *kernel.Stats) kernel.RunResult {
	res := kernel.RunResult{Evals: 1}
	p := gen.Generate(ch, genCfg(ch, false, false))
	var cands []int
	for i, t := range p.Toks {
		if t.Role == "bin.op" {
			if _, ok := substLevels[t.Text]; ok {
				cands = append(cands, i)
			}
		}
	}
	if len(cands) == 0 {
		return res
	}
	ti := cands[ch.Choose(len(cands))]
	tk := p.Toks[ti]
	level := substLevels[tk.Text]
	const word = "OPz"
	text2 := p.Text[:tk.Start] + " " + word + " " + p.Text[tk.End:]
	k := 1 + ch.Choose(3)
	steps := func(text string, withOp bool) (ords []int, errs string, ok bool) {
		toks, pan := xutil.LexAllToEnd(lexer.NewBuilder(), text)
		if pan != nil {
			return nil, "", false
		}
		posIndex := map[token.Position]int{}
		for i, t := range toks {
			if _, dup := posIndex[t.Start]; !dup {
				posIndex[t.Start] = i
			}
		}
		lb := lexer.NewBuilder()
		pb := parser.NewBuilder(lb)
		if withOp {
			id := lb.RegisterTokenType(word)
			lb.UseTokenInterceptor(func(l *lexer.Lexer, next func() token.Token) token.Token {
				t := next()
				if t.Type == token.IDENT && t.Literal == word {
					t.Type = id
				}
				return t
			})
			if err := pb.RegisterInfixOperator(id, level, func(tok token.Token, left ast.Expression, right func() ast.Expression) ast.Expression {
				return &opStandIn{Tok: tok, L: left, R: right(), Lvl: level}
			}); err != nil {
				return nil, "", false
			}
		}
		for i := 0; i < k; i++ {
			first := i == 0
			pb.UseExpressionInterceptor(func(ps *parser.Parser, next func() ast.Expression) ast.Expression {
				if first {
					ords = append(ords, posIndex[ps.CurrentToken.Start])
				}
				return next()
			})
			pb.UseStatementInterceptor(func(ps *parser.Parser, next func() ast.Statement) ast.Statement {
				if first {
					ords = append(ords, -1-posIndex[ps.CurrentToken.Start])
				}
				return next()
			})
		}
		o := xutil.Parse(pb, text)
		if o.Panic != nil {
			return nil, "", false
		}
		return ords, xutil.ErrorsString(o.Errors), true
	}
	a, aerr, ok1 := steps(p.Text, false)
	b, berr, ok2 := steps(text2, true)
	if !ok1 || !ok2 || aerr != "" {
		return res
	}
	st.Inc("probe.registered_operator_stands_in_for_a_builtin_one")
	res.Nontrivial = true
	res.Fingerprint = kernel.Mix(kernel.Hash64(text2), uint64(level))
	res.Steps = int64(len(a) + len(b))
	if berr != "" || !equalInts(a, b) {
		res.Violations = append(res.Violations, kernel.Violation{Property: "C04", Kind: "steps", Signature: "steps|operands-of-a-registered-operator",
			Detail:       fmt.Sprintf("with `%s` (token #%d) replaced by an infix operator registered at the same level (%d), the interceptors saw steps %v (errors %q); in the original program they saw %v\noriginal: %q\nwith registered operator: %q", tk.Text, ti, level, b, berr, a, p.Text, text2),
			Materialised: map[string]any{"original": p.Text, "with_registered_operator": text2, "level": level}})
	}
	return res
}

// operatorTransparency: the builder carries registered operators (an infix operator at ANY level, also above
// MEMBER and at the assignment level, a prefix and a postfix operator) and the program uses them in chains
// mixed with built-in operators. k pass-through (or re-entering) interceptors must leave tree, errors and
// output exactly as they are with zero interceptors on the same builder configuration.
func (e *Engine) operatorTransparency(ch *kernel.Chooser, st *kernel.Stats) kernel.RunResult {
	res := kernel.RunResult{Evals: 1}
	p := gen.Generate(ch, genCfg(ch, false, false))
	level := 2 + ch.Choose(15)
	// every occurrence of one built-in binary operator becomes the registered word
	var ops []string
	seen := map[string]bool{}
	for _, t := range p.Toks {
		if t.Role == "bin.op" && !seen[t.Text] {
			seen[t.Text] = true
			ops = append(ops, t.Text)
		}
	}
	var sb strings.Builder
	if len(ops) > 0 {
		victim := ops[ch.Choose(len(ops))]
		last := 0
		for _, t := range p.Toks {
			if t.Role == "bin.op" && t.Text == victim {
				sb.WriteString(p.Text[last:t.Start])
				sb.WriteString(" OPz ")
				last = t.End
			}
		}
		sb.WriteString(p.Text[last:])
	} else {
		sb.WriteString(p.Text)
	}
	text := sb.String()
	if !strings.HasSuffix(strings.TrimRight(text, " \t"), "\n") && !strings.HasSuffix(strings.TrimRight(text, " \t\n"), ";") {
		text += ";"
	}
	atoms := []string{"a", "b.c", "f(x)", "(a + 1)", "n[0]", "2", "a.b OPz c"}
	bins := []string{"+", "*", "==", "&&", "||", "<", "-", "%", "OPz", "OPz", "OPz", "."}
	for i, n := 0, 1+ch.Choose(3); i < n; i++ {
		var c strings.Builder
		c.WriteString("\n")
		if ch.Bool(1, 3) {
			c.WriteString("x = ")
		}
		for j, m := 0, 2+ch.Choose(4); j < m; j++ {
			if j > 0 {
				op := bins[ch.Choose(len(bins))]
				if op == "." {
					c.WriteString(".p OPz ")
				} else {
					c.WriteString(" " + op + " ")
				}
			}
			if ch.Bool(1, 5) {
				c.WriteString("PREz ")
			}
			c.WriteString(atoms[ch.Choose(len(atoms))])
			if ch.Bool(1, 5) {
				c.WriteString(" POSTz")
			}
		}
		c.WriteString(";")
		text += c.String()
	}
	m := xutil.AllModes[ch.Choose(4)]
	type outc struct{ dump, errs, code string }
	run := func(k int, reenterEvery int) (o outc, ok bool) {
		lb := lexer.NewBuilder()
		pb := parser.NewBuilder(lb).WithTolerantMode(m.Tolerant).WithSmartSemicolon(m.Smart)
		ids := map[string]token.Type{}
		for _, w := range []string{"OPz", "PREz", "POSTz"} {
			ids[w] = lb.RegisterTokenType(w)
		}
		lb.UseTokenInterceptor(func(l *lexer.Lexer, next func() token.Token) token.Token {
			t := next()
			if t.Type == token.IDENT {
				if id, ok := ids[t.Literal]; ok {
					t.Type = id
				}
			}
			return t
		})
		e1 := pb.RegisterInfixOperator(ids["OPz"], level, func(tok token.Token, left ast.Expression, right func() ast.Expression) ast.Expression {
			return &opStandIn{Tok: tok, L: left, R: right(), Lvl: level}
		})
		e2 := pb.RegisterPrefixOperator(ids["PREz"], func(tok token.Token, right func() ast.Expression) ast.Expression {
			return &opStandIn{Tok: tok, L: &ast.Identifier{Token: tok, Value: "pre"}, R: right(), Lvl: parser.UNARY}
		})
		e3 := pb.RegisterPostfixOperator(ids["POSTz"], func(tok token.Token, left ast.Expression) ast.Expression {
			return &opStandIn{Tok: tok, L: left, R: &ast.Identifier{Token: tok, Value: "post"}, Lvl: parser.CALL}
		})
		if e1 != nil || e2 != nil || e3 != nil {
			return o, false
		}
		n := 0
		for i := 0; i < k; i++ {
			pb.UseExpressionInterceptor(func(ps *parser.Parser, next func() ast.Expression) ast.Expression {
				n++
				if reenterEvery > 0 && n%reenterEvery == 0 {
					left := ps.ParsePrefixExpression()
					return ps.ParseRemainingExpression(left)
				}
				return next()
			})
			pb.UseStatementInterceptor(func(ps *parser.Parser, next func() ast.Statement) ast.Statement { return next() })
		}
		po := xutil.Parse(pb, text)
		if po.Panic != nil {
			return outc{dump: fmt.Sprint("panic: ", po.Panic)}, true
		}
		o = outc{dump: xutil.Dump(po.Program), errs: xutil.ErrorsString(po.Errors)}
		if po.Err == nil {
			r, pan, _ := xutil.Compile(xutil.CompilerConfig{}, po.Program)
			o.code = fmt.Sprint(pan) + r.Code
		}
		return o, true
	}
	base, ok := run(0, 0)
	if !ok {
		return res
	}
	st.Inc("probe.transparency_with_registered_operators")
	if level > parser.MEMBER {
		st.Inc("probe.transparency_with_infix_operator_above_member_level")
	}
	res.Nontrivial = true
	res.Fingerprint = kernel.Mix(kernel.Hash64(text), uint64(level))
	k := 1 + ch.Choose(4)
	re := 0
	if ch.Bool(1, 2) {
		re = 1 + ch.Choose(3)
	}
	got, _ := run(k, re)
	res.Steps = int64(len(text))
	if got != base {
		what, sig := "tree", "transparency|registered-operators|tree"
		switch {
		case got.dump != base.dump:
		case got.errs != base.errs:
			what, sig = "errors", "transparency|registered-operators|errors"
		default:
			what, sig = "output", "transparency|registered-operators|output"
		}
		kind := "transparency"
		if re > 0 {
			kind, sig = "reentrant", strings.Replace(sig, "transparency|", "reentrant|", 1)
		}
		res.Violations = append(res.Violations, kernel.Violation{Property: "C04", Kind: kind, Signature: sig,
			Detail:       fmt.Sprintf("builder with infix OPz at level %d, prefix PREz, postfix POSTz (mode %s): with %d expression and statement interceptors (re-entering every %d-th invocation; 0 = all pass through) the %s differs from the zero-interceptor run\ninput: %q\nwith interceptors: errors %q code %q\nwithout: errors %q code %q", level, m, k, re, what, text, got.errs, clip(got.code), base.errs, clip(base.code)),
			Materialised: map[string]any{"input": text, "level": level, "interceptors": k, "reenter_every": re, "mode": m.String()}})
	}
	return res
}

func (e *Engine) Run(prop string, ch *kernel.Chooser, st *kernel.Stats) kernel.RunResult {
	if prop == "C04" && ch.Bool(1, 12) {
		return e.operatorScenario(ch, st)
	}
	if prop == "C04" && ch.Bool(1, 12) {
		return e.operatorTransparency(ch, st)
	}
	forC16 := prop == "C16"
	gcfg := genCfg(ch, forC16, e.tier == "thorough")
	p := gen.Generate(ch, gcfg)
	res := kernel.RunResult{Evals: 1}
	if gcfg.DeepBlocksFirst >= 64 {
		st.Inc("probe.first_function_under_ge64_plain_blocks")
	}
	if gcfg.DeepFuncsFirst >= 64 {
		st.Inc("probe.ge64_functions_then_blocks_only")
	}
	// validate generator ground truth against the plain lexer and strict parser
	plainToks, pan := xutil.LexAll(lexer.NewBuilder(), p.Text, len(p.Text)+8)
	okTruth := pan == nil && len(plainToks) == len(p.Toks)+1
	if okTruth {
		for i, gt := range p.Toks {
			xt := plainToks[i]
			if xt.Type != token.STRING && xt.Type != token.RAW_STRING && xt.Literal != gt.Text {
				okTruth = false
				break
			}
		}
	}
	if !okTruth {
		st.Inc("discarded.ground_truth_invalid")
		return res
	}
	// choose the input: valid, or one injected fault
	text := p.Text
	valid := true
	if o := xutil.Parse(xutil.PlainBuilder(xutil.Mode{}), p.Text); o.Panic != nil || o.Err != nil {
		// xjs rejects a program that is valid by construction (that it should not is another property's business):
		// the ground-truth oracles are off for it, everything that compares xjs with itself stays on
		valid = false
		st.Inc("generated_program_rejected_by_xjs_kept_without_ground_truth")
	}
	faultDesc := "none"
	fusedOnly := false // the fault only removed a statement separator: brace structure and token order are intact
	if ch.Bool(2, 5) {
		faults := faultsim.EnumerateFaults(p)
		if len(faults) > 0 {
			f := faults[ch.Choose(len(faults))]
			text, valid, faultDesc = f.Text, false, f.Kind+":"+f.Ctx
			st.Inc("fault." + f.Kind)
			fusedOnly = f.Kind == "unsep"
		}
	}
	if ch.Bool(1, 12) {
		// the stored text starts with bytes editors and tools leave there: byte-order marks, a shebang line,
		// invisible spaces, NUL, an HTML comment opener, an empty block comment. Ground truth no longer applies.
		pre := oddPrefixes[ch.Choose(len(oddPrefixes))]
		text, valid, faultDesc = pre+text, false, faultDesc+"+prefix"
		fusedOnly = false
		st.Inc("fault.odd_prefix")
	}
	m := xutil.AllModes[ch.Choose(4)]
	if forC16 && valid && ch.Bool(1, 5) {
		// fused statements under tolerant mode, on purpose: the nesting ground truth still applies there
		var fused []faultsim.Fault
		for _, f := range faultsim.EnumerateFaults(p) {
			if f.Kind == "unsep" {
				fused = append(fused, f)
			}
		}
		if len(fused) > 0 {
			f := fused[ch.Choose(len(fused))]
			text, valid, faultDesc, fusedOnly = f.Text, false, f.Kind+":"+f.Ctx, true
			m.Tolerant = true
			st.Inc("fault.unsep")
		}
	}
	in := drawInstall(ch, forC16)
	// C16: syntax defined by a plugin (public parse helpers) precedes the program; the program's nesting ground
	// truth applies to the tokens after it, the prefix has a ground truth of its own (plain blocks, no function)
	hostDriven := forC16 && ch.Bool(1, 6)
	if hostDriven {
		// the host loops over ParseStatement()/NextToken() itself instead of calling ParseProgram
		xutil.HostDriven = true
		defer func() { xutil.HostDriven = false }()
		st.Inc("probe.host_driven_statement_loop")
	}
	ordShift, syntaxRun := 0, false
	var prefixDepth []int
	if forC16 && valid && text == p.Text && ch.Bool(1, 6) {
		pre := syntaxPrefix(ch)
		if ptoks, ppan := xutil.LexAll(lexer.NewBuilder(), pre, len(pre)+8); ppan == nil && len(ptoks) > 0 {
			depth := 0
			for _, t := range ptoks[:len(ptoks)-1] {
				if t.Type == token.RBRACE {
					depth--
				}
				prefixDepth = append(prefixDepth, depth)
				if t.Type == token.LBRACE {
					depth++
				}
			}
			in.syntax, syntaxRun = true, true
			text, valid, faultDesc = pre+p.Text, false, "plugin-syntax-prefix"
			ordShift = len(prefixDepth)
			st.Inc("probe.plugin_defined_syntax_using_public_parse_helpers")
		}
	}
	st.Inc(fmt.Sprintf("installs.kT%d", in.kT))
	if in.kS == 8 && in.kE == 8 && in.kT == 8 {
		st.Inc("probe.eight_of_each_kind")
	}

	mat := func() map[string]any {
		return map[string]any{"input": text, "valid_program": p.Text, "fault": faultDesc, "mode": m.String(), "install": in.String()}
	}
	var viol []kernel.Violation
	curBuild := 0
	add := func(propID, kind, sig, detail string) {
		if propID != prop {
			return
		}
		for _, v := range viol {
			if v.Signature == sig {
				return
			}
		}
		viol = append(viol, kernel.Violation{Property: propID, Kind: kind, Signature: sig,
			Detail: fmt.Sprintf("%s\ninput: %q\nmode=%s install: %s fault=%s parser #%d of this builder", detail, text, m, in, faultDesc, curBuild+1), Materialised: mat()})
	}

	// 0. baseline: zero interceptors
	base := observe(xutil.PlainBuilder(m), text, nil)
	if base.panic != "" {
		st.Inc("discarded.baseline_panicked") // C11's business
		return res
	}
	toks, _ := xutil.LexAllToEnd(lexer.NewBuilder(), text)
	baseTokens := make([]string, len(toks))
	posIndex := map[token.Position]int{}
	for i, t := range toks {
		baseTokens[i] = xutil.TokString(t)
		if _, dup := posIndex[t.Start]; !dup {
			posIndex[t.Start] = i
		}
	}

	// 1. reference run: exactly one pass-through observer of each kind
	ref := &recorder{posIndex: posIndex, nTok: len(toks)}
	refIn := install{kT: 1, kS: 1, kE: 1, order: []byte("TSE"), viaInstall: []bool{false, false, false}, syntax: in.syntax}
	if forC16 && in.kS == 0 {
		refIn = install{kT: 1, kE: 1, order: []byte("TE"), viaInstall: []bool{false, false}, syntax: in.syntax}
		st.Inc("probe.no_statement_party_installed")
	} else if forC16 && in.kE == 0 {
		refIn = install{kT: 1, kS: 1, order: []byte("TS"), viaInstall: []bool{false, false}, syntax: in.syntax}
		st.Inc("probe.no_expression_party_installed")
	}
	refOut := observe(build(refIn, m, ch, ref, kernel.NewStats()), text, ref)
	_, refS := checkHistory(ref.events, 'S', 1)
	_, refE := checkHistory(ref.events, 'E', 1)

	// 2. the simulated installation: one builder, in.builds parsers built from it one after the other
	// (every parser must behave as the first does), parties possibly installed between two builds
	rec := &recorder{posIndex: posIndex, nTok: len(toks)}
	inst := newInstallation(&in, m, ch, rec, st)
	for n, k := range in.order {
		inst.add(k, in.viaInstall[n])
	}
	addedEarly := make([]bool, in.builds+1)
	for curBuild = 0; curBuild < in.builds; curBuild++ {
		if curBuild > 0 {
			if k := in.lateAdds[curBuild]; k != 0 {
				if via := ch.Bool(1, 3); !addedEarly[curBuild] {
					inst.add(k, via)
				}
				switch k {
				case 'T':
					in.kT++
				case 'S':
					in.kS++
				case 'E':
					in.kE++
				}
				in.order = append(in.order, k)
				st.Inc("probe.party_installed_between_two_builds")
			}
			*rec = recorder{posIndex: posIndex, nTok: len(toks)}
			st.Inc("probe.builder_reused_for_another_parser")
		}
		inst.bailed, inst.stmtDepth, inst.exprDepth, inst.inStmtReenter, inst.bracketDepth = false, 0, 0, false, 0
		inst.bracketFunc = 0
		lexCalls := hooks.Count(hooks.LexerNextToken)
		xutil.AfterBuild = nil
		if nb := curBuild + 1; nb < in.builds && in.lateAdds[nb] != 0 && in.earlyLate[nb] {
			k, via := in.lateAdds[nb], ch.Bool(1, 3)
			xutil.AfterBuild = func() {
				xutil.AfterBuild = nil // once: not again for parsers built inside interceptors
				inst.add(k, via)
				addedEarly[nb] = true
				st.Inc("probe.party_installed_between_Build_and_ParseProgram_of_an_earlier_parser")
			}
		}
		out := observe(inst.pb, text, rec)
		xutil.AfterBuild = nil
		lexCalls = hooks.Count(hooks.LexerNextToken) - lexCalls
		res.Steps += int64(len(rec.events))
		anyRe := false
		for _, ev := range rec.events {
			if ev.re {
				anyRe = true
				break
			}
		}
		if !valid && base.errors != "" && in.kS+in.kE+in.kT >= 8 {
			st.Inc("probe.malformed_with_errors_under_many_interceptors")
		}

		if prop == "C04" {
			cmp := func(label string, o outcome) {
				tag := "transparency"
				if anyRe && label == "run" {
					tag = "reentrant"
				}
				switch {
				case o.panic != "":
					add("C04", tag, tag+"|panic", fmt.Sprintf("%s: parse with interceptors panicked (%s); without interceptors it does not", label, o.panic))
				case o.tree != base.tree:
					add("C04", tag, tag+"|tree", fmt.Sprintf("%s: tree differs from the zero-interceptor tree\n with:    %s\n without: %s", label, clip(o.tree), clip(base.tree)))
				case o.errors != base.errors || o.errNil != base.errNil:
					add("C04", tag, tag+"|errors", fmt.Sprintf("%s: errors differ: with=%q without=%q", label, o.errors, base.errors))
				case o.compact != base.compact || o.pretty != base.pretty:
					add("C04", tag, tag+"|output", fmt.Sprintf("%s: output differs: with=%q without=%q", label, o.compact, base.compact))
				}
			}
			cmp("one-observer run", refOut)
			cmp("run", out)
			// token sequence delivered to the parser == plain lexer's sequence (all fields)
			for _, rr := range []*recorder{ref, rec} {
				for _, to := range rr.toks {
					i := to.pull - 1
					want := ""
					got := xutil.TokString(to.tok)
					if i < len(baseTokens) {
						want = baseTokens[i]
					} else if len(toks) > 0 {
						// end of input requested again: type and position must be those of the first end-of-input token
						last := toks[len(toks)-1]
						want = fmt.Sprintf("%d@%d:%d-%d:%d", int(last.Type), last.Start.Line, last.Start.Column, last.End.Line, last.End.Column)
						got = fmt.Sprintf("%d@%d:%d-%d:%d", int(to.tok.Type), to.tok.Start.Line, to.tok.Start.Column, to.tok.End.Line, to.tok.End.Column)
					}
					if got != want {
						add("C04", "transparency", "transparency|tokens", fmt.Sprintf("token #%d delivered through the interceptor chain is %s, the plain lexer yields %s", i, got, want))
						break
					}
					// lexer positioned on the lexeme's first byte at entry
					off := lineColOffset(text, to.line, to.col)
					if to.tok.Type == token.EOF {
						if !(off >= len(text) || (off >= 0 && text[off] == 0)) || to.ch != 0 {
							add("C04", "token-cursor", "token-cursor|eof", fmt.Sprintf("at entry of the token interceptor for end-of-input the lexer is at %d:%d (byte %d of %d, char %q)", to.line, to.col, off, len(text), to.ch))
						}
						continue
					}
					if off < 0 || off >= len(text) || text[off] != to.ch {
						add("C04", "token-cursor", "token-cursor|position", fmt.Sprintf("at entry of the token interceptor for %s the lexer reports %d:%d char %q, which is not a byte of the input there", xutil.TokString(to.tok), to.line, to.col, to.ch))
						continue
					}
					lex := to.tok.Literal
					okc := false
					switch to.tok.Type {
					case token.STRING:
						okc = to.ch == '"' || to.ch == '\''
					case token.RAW_STRING:
						okc = to.ch == '`'
					case token.ILLEGAL:
						okc = true
					default:
						okc = strings.HasPrefix(text[off:], lex)
					}
					if !okc {
						add("C04", "token-cursor", "token-cursor|first-byte", fmt.Sprintf("at entry of the token interceptor for %s the lexer is at %d:%d on %q, not on the lexeme's first byte", xutil.TokString(to.tok), to.line, to.col, to.ch))
					}
					if valid && i < len(p.Toks) {
						gt := p.Toks[i]
						if gt.Line != to.line || gt.Col != to.col {
							add("C04", "token-cursor", "token-cursor|generator-position", fmt.Sprintf("token #%d %q starts at %d:%d (generator), lexer was at %d:%d at interceptor entry", i, gt.Text, gt.Line, gt.Col, to.line, to.col))
						}
					}
				}
			}
			// once per token includes the end-of-input token: the parser reads until its current token is
			// end of input, so every token interceptor must have been asked for it at least once
			if out.panic == "" && in.kT > 0 {
				eofSeen := 0
				for _, to := range rec.toks {
					if to.tok.Type == token.EOF {
						eofSeen++
					}
				}
				if eofSeen < in.kT {
					add("C04", "order", "order|token-eof", fmt.Sprintf("%d token interceptors are installed and the parse ran to end of input, but end-of-input tokens passed through interceptors only %d times", in.kT, eofSeen))
				}
				// ground truth from /repo's guarded yield point at the top of Lexer.NextToken
				if hooks.Active && !in.subParse && int64(rec.pulls) != lexCalls {
					add("C04", "order", "order|token-count-vs-lexer", fmt.Sprintf("Lexer.NextToken was called %d times during the parse but the token interceptor chain ran %d times", lexCalls, rec.pulls))
				}
			}
			// history: order, exactly-once, same current token
			for _, kk := range []struct {
				kind byte
				k    int
				ref  []int
				name string
			}{{'T', in.kT, nil, "token"}, {'S', in.kS, refS, "statement"}, {'E', in.kE, refE, "expression"}} {
				if kk.k == 0 {
					continue
				}
				evs := rec.events
				if kk.kind == 'T' {
					evs = normaliseTokenOrder(rec.events, kk.k)
				}
				prob, ords := checkHistory(evs, kk.kind, kk.k)
				if prob != "" {
					add("C04", "order", "order|"+kk.name, prob)
					continue
				}
				if kk.kind == 'T' {
					// once per token: every party ran once per pull
					cnt := make([]int, kk.k)
					for _, ev := range rec.events {
						if ev.kind == 'T' && ev.phase == 'e' {
							cnt[ev.idx]++
						}
					}
					for i := range cnt {
						if cnt[i] != rec.pulls {
							add("C04", "order", "order|token-count", fmt.Sprintf("token interceptor %d ran %d times for %d tokens", i, cnt[i], rec.pulls))
						}
					}
					if rec.pulls != ref.pulls {
						add("C04", "steps", "steps|token", fmt.Sprintf("%d tokens were requested with %d token interceptors, %d with one", rec.pulls, kk.k, ref.pulls))
					}
					continue
				}
				if kk.kind == 'S' && len(rec.reentered) > 0 {
					// a step requested through ParseStatement() shows up as a second, nested group at the same token
					var flat []int
					dups := 0
					for i, o := range ords {
						if i > 0 && o == ords[i-1] {
							dups++
							continue
						}
						flat = append(flat, o)
					}
					if dups != len(rec.reentered) {
						add("C04", "steps", "steps|statement-via-ParseStatement", fmt.Sprintf("the innermost statement interceptor asked for %d steps through the public ParseStatement(), but the interceptor chain ran for %d of them", len(rec.reentered), dups))
					}
					ords = flat
				}
				// adding interceptors neither adds nor removes steps
				if !equalInts(ords, kk.ref) {
					add("C04", "steps", "steps|"+kk.name, fmt.Sprintf("%s steps (current-token ordinals) with %d interceptors: %v; with one: %v", kk.name, kk.k, ords, kk.ref))
				}
			}
			// statement steps on valid programs = the generator's statement starts
			if valid && !equalInts(refS, p.StmtStarts) {
				add("C04", "first-token", "first-token|statement-steps", fmt.Sprintf("statement interceptor saw current tokens %v, the program's statements start at tokens %v", refS, p.StmtStarts))
			}
			// every sub-expression of the (error-free) tree was obtained through an expression step of its own:
			// an observer must have been entered at its first token
			if valid && curBuild == 0 {
				if bo := xutil.Parse(xutil.PlainBuilder(m), text); bo.Panic == nil && bo.Err == nil && bo.Program != nil {
					seen := map[token.Position]bool{}
					for _, er := range ref.exprRet {
						seen[er.entry.Start] = true
					}
					xutil.WalkNodes(bo.Program, func(n any) {
						var kids []roleExpr
						exprChildren(n, &kids)
						for _, k := range kids {
							if lt, ok := leftmostExpr(k.e); ok && !seen[lt.Start] {
								add("C04", "steps", "steps|expression-step-missing|"+k.role, fmt.Sprintf("no expression interceptor invocation started at %s, the first token of a %s sub-expression", xutil.TokString(lt), k.role))
							}
						}
					})
					st.Inc("probe.expression_step_coverage_checked")
				}
			}
			// every entry of a statement list of the returned tree (valid or malformed input, any mode) was handed out
			// by a statement step: the outermost party got that very node back from next()
			for _, pair := range []struct {
				rr *recorder
				o  outcome
				n  int
			}{{ref, refOut, 1}, {rec, out, in.kS}} {
				if pair.n == 0 || pair.o.prog == nil || pair.o.panic != "" || in.stmtChain || inst.bailed {
					continue
				}
				got := map[ast.Statement]bool{}
				for _, sr := range pair.rr.stmtRet {
					if sr.node != nil {
						got[sr.node] = true
					}
				}
				xutil.WalkNodes(pair.o.prog, func(n any) {
					var list []ast.Statement
					switch b := n.(type) {
					case *ast.Program:
						list = b.Statements
					case *ast.BlockStatement:
						list = b.Statements
					}
					for _, sn := range list {
						if !xutil.IsNilValue(sn) && !got[sn] {
							what := fmt.Sprintf("%T", sn)
							if lt, ok := leftmostStmt(sn); ok {
								what += " starting at " + xutil.TokString(lt)
							}
							add("C04", "steps", "steps|statement-in-tree-without-step", fmt.Sprintf("the returned tree holds a %s in a statement list, but no statement interceptor invocation returned that node (mode %s)", what, m))
						}
					}
				})
				st.Inc("probe.statement_list_coverage_checked")
			}
			// every party saw the first token of the construct that was parsed
			for _, rr := range []*recorder{ref, rec} {
				for _, sr := range rr.stmtRet {
					if lt, ok := leftmostStmt(sr.node); ok && (lt.Start != sr.entry.Start || lt.Type != sr.entry.Type) {
						add("C04", "first-token", "first-token|statement", fmt.Sprintf("statement interceptor ran with current token %s but the statement it got back starts with %s", xutil.TokString(sr.entry), xutil.TokString(lt)))
					}
				}
				for _, er := range rr.exprRet {
					if lt, ok := leftmostExpr(er.node); ok && (lt.Start != er.entry.Start || lt.Type != er.entry.Type) {
						add("C04", "first-token", "first-token|expression", fmt.Sprintf("expression interceptor ran with current token %s but the expression it got back starts with %s", xutil.TokString(er.entry), xutil.TokString(lt)))
					}
				}
			}
			// pull-number ordinal must agree with the position ordinal (one lookahead token)
			if in.kT > 0 {
				// checked implicitly through transparency|tokens; nothing more here
			}
		}

		if prop == "C16" {
			// in-run oracle on valid programs: answers at every invocation vs generator nesting
			// (not after a bail-out: the parse continued from the middle of a construct)
			// Statements fused on one line keep their nesting: in tolerant mode (which parses them as separate
			// statements) the same ground truth applies, provided the removed separator was not a `;` token.
			nestingKnown := valid || (fusedOnly && m.Tolerant && len(toks) == len(p.Toks)+1) || (syntaxRun && len(toks) == ordShift+len(p.Toks)+1)
			if nestingKnown && !valid {
				st.Inc("probe.nesting_checked_on_fused_statements_in_tolerant_mode")
			}
			if nestingKnown && !inst.bailed {
				for _, rr := range []*recorder{ref, rec} {
					for _, c := range rr.ctxs {
						if c.ord < 0 || c.ord-ordShift >= len(p.Toks) {
							continue
						}
						var gt gen.Tok
						if c.ord < ordShift {
							// inside the plugin-defined prefix: top level, or inside a plain block of an `unless`
							gt = gen.Tok{Text: c.tokLit, Ctx: gen.CtxGlobal, CtxDepth: prefixDepth[c.ord]}
							if prefixDepth[c.ord] > 0 {
								gt.Ctx = gen.CtxBlock
							}
							st.Inc("probe.context_asked_inside_plugin_defined_syntax")
						} else {
							gt = p.Toks[c.ord-ordShift]
						}
						kindName := map[byte]string{'S': "statement", 'E': "expression"}[c.kind]
						if gt.CtxDepth >= 5 {
							st.Inc("probe.depth_ge5")
						}
						if gt.CtxDepth >= 300 {
							st.Inc("probe.context_stack_depth_ge300")
						}
						if gt.CtxDepth >= 40 {
							st.Inc("probe.context_stack_depth_ge40")
						}
						wantIn := gt.InFunc || c.bracketFunc
						if c.inFunc != wantIn {
							add("C16", "in-function", fmt.Sprintf("in-function|want=%v|%s", wantIn, kindName),
								fmt.Sprintf("%s interceptor at token #%d %q (%d:%d): IsInFunction()=%v but the token is%s inside a function body (nesting depth %d)", kindName, c.ord, gt.Text, gt.Line, gt.Col, c.inFunc, map[bool]string{true: "", false: " not"}[gt.InFunc], gt.CtxDepth))
						}
						if c.bracketed {
							continue // "is this inside a function" was still checked above
						}
						okCtx := false
						want := ""
						switch gt.Ctx {
						case gen.CtxGlobal:
							okCtx, want = c.ctx == parser.GlobalContext, "global"
						case gen.CtxBlock:
							okCtx, want = c.ctx == parser.BlockContext, "block"
						case gen.CtxFunc:
							// directly inside a function body: the body is a block in xjs's tree; either answer is accepted (DESIGN §5.7)
							okCtx, want = c.ctx == parser.FunctionContext || c.ctx == parser.BlockContext, "function-or-block"
							st.Inc("probe.function_body_direct")
						}
						if !okCtx {
							add("C16", "innermost", fmt.Sprintf("innermost|want=%s|got=%d|%s", want, int(c.ctx), kindName),
								fmt.Sprintf("%s interceptor at token #%d %q (%d:%d): CurrentContext()=%d but the innermost enclosing context is %s", kindName, c.ord, gt.Text, gt.Line, gt.Col, int(c.ctx), want))
						}
					}
				}
				for i, t := range p.Toks {
					if t.Role == "fe.kw" && i > 0 {
						switch p.Toks[i-1].Role {
						case "call.(", "call.,":
							st.Inc("probe.funcexpr_in_call_argument")
						case "obj.:":
							st.Inc("probe.funcexpr_in_object_value")
						case "arr.[", "arr.,":
							st.Inc("probe.funcexpr_in_array")
						case "if.(", "while.(":
							st.Inc("probe.funcexpr_in_condition")
						}
					}
				}
			}
			// every step is balanced, on any input
			for _, rr := range []*recorder{ref, rec} {
				if rr.pushMismatch != "" {
					add("C16", "pushed-context", "pushed-context", "a context value pushed by a plugin is not what the parser answers: "+rr.pushMismatch)
				}
				if rr.imbalance != "" {
					add("C16", "step-balance", "step-balance", "a parse step returned with a different context than it was entered with: "+rr.imbalance)
				}
			}
			// final state of the chosen input under the simulated installation
			finalCheck := func(label string, o outcome, txt string, mm xutil.Mode) {
				if o.panic != "" {
					return
				}
				if o.ctxTop != parser.GlobalContext || o.inFunc {
					add("C16", "final-state", fmt.Sprintf("final-state|ctx=%d|inFunc=%v", int(o.ctxTop), o.inFunc),
						fmt.Sprintf("%s: after ParseProgram returned, CurrentContext()=%d IsInFunction()=%v (mode %s) for input %q", label, int(o.ctxTop), o.inFunc, mm, txt))
				}
			}
			finalCheck("with interceptors", out, text, m)
			finalCheck("one observer", refOut, text, m)
			// final state over every enumerated fault of this program x 4 modes (plain builder)
			faults := faultsim.EnumerateFaults(p)
			if curBuild > 0 {
				faults = nil
			}
			if maxF := 300; len(faults) > maxF {
				// very large (deep-nest) programs: a seeded sample of the fault positions
				if len(p.Toks) > 1500 {
					maxF = 60
				}
				step := len(faults)/maxF + 1
				off := ch.Choose(step)
				var sampled []faultsim.Fault
				for i := off; i < len(faults); i += step {
					sampled = append(sampled, faults[i])
				}
				faults = sampled
			}
			for _, f := range faults {
				for _, mm := range xutil.AllModes {
					o := xutil.Parse(xutil.PlainBuilder(mm), f.Text)
					res.Evals++
					if o.Panic != nil || o.Parser == nil {
						continue
					}
					if o.Parser.CurrentContext() != parser.GlobalContext || o.Parser.IsInFunction() {
						add("C16", "final-state", fmt.Sprintf("final-state|ctx=%d|inFunc=%v", int(o.Parser.CurrentContext()), o.Parser.IsInFunction()),
							fmt.Sprintf("after ParseProgram returned, CurrentContext()=%d IsInFunction()=%v (mode %s, fault %s) for input %q", int(o.Parser.CurrentContext()), o.Parser.IsInFunction(), mm, f.Ctx, f.Text))
					}
					if len(o.Errors) > 0 {
						st.Inc("probe.final_state_checked_on_erroring_input")
					}
				}
			}
		}

	}
	res.Violations = viol
	res.Fingerprint = kernel.Mix(kernel.Hash64(text), kernel.Hash64(in.String()+m.String())+uint64(res.Steps))
	res.Nontrivial = in.kS+in.kE+in.kT >= 1 && len(p.Toks) >= 4
	if len(text) <= 60 {
		res.Sample = map[string]any{"input": text, "mode": m.String(), "install": in.String(), "callback_events": res.Steps, "fault": faultDesc}
	}
	return res
}

// normaliseTokenOrder: the property states no order for token interceptors
// (xjs runs the last installed first). If the first token event comes from the
// last party, indexes are mirrored so that the same nesting check applies to
// whichever consistent order the chain uses.
func normaliseTokenOrder(events []event, k int) []event {
	for _, ev := range events {
		if ev.kind == 'T' {
			if ev.idx == 0 {
				return events
			}
			break
		}
	}
	out := make([]event, len(events))
	copy(out, events)
	for i := range out {
		if out[i].kind == 'T' {
			out[i].idx = k - 1 - out[i].idx
		}
	}
	return out
}

func clip(s string) string {
	if len(s) > 700 {
		return s[:700] + "..."
	}
	return s
}

func equalInts(a, b []int) bool {
	if len(a) != len(b) {
		return false
	}
	for i := range a {
		if a[i] != b[i] {
			return false
		}
	}
	return true
}

func init() {
	kernel.Register(&kernel.EngineInfo{
		Name:       "plugsim",
		Properties: []string{"C04", "C16"},
		Level:      "exploration",
		New:        New,
		Tier: func(prop, tier string) kernel.TierSpec {
			if tier == "thorough" {
				if prop == "C16" {
					return kernel.TierSpec{Runs: 2_000_000, WallSeconds: 1200, ShrinkSecs: 180, RunBudgetMs: 30000}
				}
				return kernel.TierSpec{Runs: 30_000_000, WallSeconds: 1200, ShrinkSecs: 180, RunBudgetMs: 30000}
			}
			if prop == "C16" {
				return kernel.TierSpec{Runs: 6000, WallSeconds: 60, ShrinkSecs: 20, RunBudgetMs: 30000}
			}
			return kernel.TierSpec{Runs: 200_000, WallSeconds: 45, ShrinkSecs: 20, RunBudgetMs: 20000}
		},
		Rule:      "each run = one seeded program (valid, or with one injected fault) x one parser mode x one seeded installation of 0..8 token, statement and expression interceptors (direct or via Install, seeded registration order) x a seeded per-invocation action schedule (pass / re-enter / run an independent nested parser first) x 1..3 parsers built one after the other from the same builder, with parties possibly installed between two builds; every parser is compared with the zero-interceptor run and a one-observer run; C16 additionally checks the final context state on every enumerated fault x 4 modes; distinct = distinct (input text, installation, mode, history length); non-trivial = at least one interceptor and at least 4 tokens",
		Real:      []string{"lexer (interceptor chain)", "parser (interceptor chains, context stack, all modes)", "ast", "compiler (compact + one pretty configuration, for the output clause)"},
		Simulated: []string{"all plugin parties: token/statement/expression interceptors and their per-invocation decisions", "the installing plugins (Install)", "the faulty storage medium (injected corruption of the input)"},
		Oracles:   []string{"zero-interceptor run of the same input (transparency / re-entrancy)", "recorded callback history checked for nesting, order and exactly-once", "generator ground truth: statement starts, token positions, nesting context of every token"},
		Assume: []string{
			"C16 oracle is permissive directly inside a function body (FunctionContext or BlockContext accepted), strict elsewhere (DESIGN.md §5.7)",
			"the in-run nesting oracle applies to valid programs only (no ground truth for corrupted text); the final-state clause applies to all inputs",
			"sampling over programs, installations and action schedules; not exhaustive",
		},
		RequiredProbes: map[string][]string{
			"C04": {"probe.reentrant_invocations", "probe.reentrant_at_depth_ge3", "probe.reentrant_party_before_passthrough_party", "probe.installed_via_plugin", "probe.malformed_with_errors_under_many_interceptors", "probe.eight_of_each_kind", "probe.builder_reused_for_another_parser", "probe.party_installed_between_two_builds", "probe.nested_parser_run_inside_interceptor", "probe.reentrant_via_specific_public_parse_function", "probe.plugin_uses_captured_builder", "probe.plugin_installs_nested_plugin", "fault.odd_prefix", "probe.statement_step_requested_through_public_ParseStatement", "probe.registered_operator_stands_in_for_a_builtin_one", "probe.operand_requested_through_ParseExpressionWithPrecedence", "probe.transparency_with_registered_operators", "probe.transparency_with_infix_operator_above_member_level"},
			"C16": {"probe.depth_ge5", "probe.function_body_direct", "probe.funcexpr_in_call_argument", "probe.funcexpr_in_object_value", "probe.funcexpr_in_condition", "probe.final_state_checked_on_erroring_input", "probe.nested_parser_run_inside_interceptor", "probe.builder_reused_for_another_parser", "probe.bailout_recovered_by_outer_interceptor", "probe.bailout_thrown_inside_function_body", "probe.reentrant_via_ParseFunctionExpression", "probe.context_stack_depth_ge40", "probe.public_ParseStatement_inside_function_body", "probe.nested_parser_built_from_the_same_builder", "probe.no_statement_party_installed", "probe.no_expression_party_installed", "probe.first_function_under_ge64_plain_blocks", "probe.plugin_defined_syntax_using_public_parse_helpers", "probe.context_asked_inside_plugin_defined_syntax"},
		},
	})
}
