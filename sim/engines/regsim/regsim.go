// Package regsim decides C05: several simulated plugins register token types
// and operators on builders (seeded histories with repeats; refusals are the
// injected faults), parsers are built at arbitrary points, and probe
// expressions check how registered operators group against every built-in
// neighbour. Oracles: a reference registration model, substitution by a
// built-in operator of the same level, and an independent operator-stack
// (shunting-yard) grouping model.
package regsim

import (
	"fmt"
	"sort"
	"strings"

	"github.com/xjslang/xjs/ast"
	"github.com/xjslang/xjs/lexer"
	"github.com/xjslang/xjs/parser"
	"github.com/xjslang/xjs/token"

	"verifsim/kernel"
	"verifsim/xutil"
)

type Engine struct{ tier string }

func New(tier string) kernel.Engine { return &Engine{tier: tier} }
func (e *Engine) Name() string      { return "regsim" }
func (e *Engine) Close()            {}

// ---- harness node types (what a plugin would define) ----------------------------

type CNode struct {
	Role string // prefix | infix | postfix
	Op   string
	L, R ast.Expression
	Prec int
}

func (c *CNode) WriteTo(cw *ast.CodeWriter) {
	cw.WriteString("(" + c.Role + ":" + c.Op)
	if c.L != nil {
		cw.WriteRune(' ')
		c.L.WriteTo(cw)
	}
	if c.R != nil {
		cw.WriteRune(' ')
		c.R.WriteTo(cw)
	}
	cw.WriteRune(')')
}
func (c *CNode) Precedence() int { return c.Prec }

// ---- s-expressions of xjs trees -----------------------------------------------------

// sexpr renders grouping only. relabel maps registered operator words to the
// label they are compared under (substitution oracle).
func sexpr(e ast.Expression, relabel map[string]string) string {
	lab := func(s string) string {
		if r, ok := relabel[s]; ok {
			return r
		}
		return strings.TrimPrefix(s, "pre:")
	}
	switch x := e.(type) {
	case nil:
		return "<nil>"
	case *ast.Identifier:
		return x.Value
	case *ast.IntegerLiteral:
		return x.Token.Literal
	case *ast.BinaryExpression:
		return "(" + lab(x.Operator) + " " + sexpr(x.Left, relabel) + " " + sexpr(x.Right, relabel) + ")"
	case *ast.UnaryExpression:
		return "(pre" + lab(x.Operator) + " " + sexpr(x.Right, relabel) + ")"
	case *ast.PostfixExpression:
		return "(post" + lab(x.Operator) + " " + sexpr(x.Left, relabel) + ")"
	case *ast.GroupedExpression:
		return "(paren " + sexpr(x.Expression, relabel) + ")"
	case *ast.CallExpression:
		args := make([]string, len(x.Arguments))
		for i, a := range x.Arguments {
			args[i] = sexpr(a, relabel)
		}
		return "(call " + sexpr(x.Function, relabel) + " [" + strings.Join(args, ",") + "])"
	case *ast.MemberExpression:
		if x.Computed {
			return "(idx " + sexpr(x.Object, relabel) + " " + sexpr(x.Property, relabel) + ")"
		}
		return "(. " + sexpr(x.Object, relabel) + " " + sexpr(x.Property, relabel) + ")"
	case *ast.AssignmentExpression:
		return "(= " + sexpr(x.Left, relabel) + " " + sexpr(x.Value, relabel) + ")"
	case *ast.CompoundAssignmentExpression:
		return "(" + x.Operator + "= " + sexpr(x.Left, relabel) + " " + sexpr(x.Value, relabel) + ")"
	case *CNode:
		switch x.Role {
		case "prefix":
			return "(pre" + lab("pre:"+x.Op) + " " + sexpr(x.R, relabel) + ")"
		case "postfix":
			return "(post" + lab(x.Op) + " " + sexpr(x.L, relabel) + ")"
		}
		return "(" + lab(x.Op) + " " + sexpr(x.L, relabel) + " " + sexpr(x.R, relabel) + ")"
	}
	return fmt.Sprintf("<%T>", e)
}

// ---- probe items and the operator-stack reference model ----------------------------------

// item kinds of a flat probe expression
const (
	kOperand = iota
	kPrefix  // level fixed: unary
	kInfix   // level, assoc
	kSuffix  // level; rendered text may be several tokens: "++", ".p", "[i]", "(x)"
	kOpen
	kClose
)

type item struct {
	kind  int
	text  string // source text
	label string // label in the s-expression
	level int
	right bool   // right-associative (assignments)
	shape string // for suffix: post | dot | idx | call
	arg   string // operand text of the suffix (property, index, argument)
	word  string // registered word, if any (for substitution)
	brk   bool   // a line break (instead of a space) precedes this item in the source text
	tight bool   // nothing precedes this item in the source text (operand written directly after a built-in prefix operator)
}

// levels: the exported constants of the parser package are public API.
var (
	lvUnary = parser.UNARY
)

type frame struct {
	isPrefix bool
	it       item
	left     string
}

// reference groups a flat item list with the classic operator-stack algorithm:
// an incoming infix or suffix operator of level L first reduces every stacked
// operator of level >= L (> L for right-associative incoming), prefix operators
// are stacked at the unary level. Returns the s-expression.
func reference(items []item, pos *int) (string, bool) {
	var ops []frame
	var cur string
	have := false
	reduceTo := func(level int, rightAssoc bool, final bool) {
		for len(ops) > 0 {
			top := ops[len(ops)-1]
			tl := top.it.level
			if top.isPrefix {
				tl = lvUnary
			}
			pop := tl >= level
			if rightAssoc {
				pop = tl > level
			}
			// a stacked right-associative operator (assignment) takes everything to its right: never reduced by an incoming operator
			if !top.isPrefix && top.it.right {
				pop = false
			}
			if final {
				pop = true
			}
			if !pop {
				break
			}
			ops = ops[:len(ops)-1]
			if top.isPrefix {
				cur = "(pre" + top.it.label + " " + cur + ")"
			} else {
				cur = "(" + top.it.label + " " + top.left + " " + cur + ")"
			}
		}
	}
	for *pos < len(items) {
		it := items[*pos]
		switch it.kind {
		case kOperand:
			if have {
				return "", false
			}
			cur, have = it.label, true
			*pos++
		case kOpen:
			if have {
				return "", false
			}
			*pos++
			inner, ok := reference(items, pos)
			if !ok || *pos >= len(items) || items[*pos].kind != kClose {
				return "", false
			}
			*pos++
			cur, have = "(paren "+inner+")", true
		case kClose:
			if !have {
				return "", false
			}
			reduceTo(-1, false, true)
			return cur, true
		case kPrefix:
			if have {
				return "", false
			}
			ops = append(ops, frame{isPrefix: true, it: it})
			*pos++
		case kInfix:
			if !have {
				return "", false
			}
			reduceTo(it.level, it.right, false)
			ops = append(ops, frame{it: it, left: cur})
			have = false
			*pos++
		case kSuffix:
			if !have {
				return "", false
			}
			reduceTo(it.level, false, false)
			switch it.shape {
			case "post":
				cur = "(post" + it.label + " " + cur + ")"
			case "dot":
				cur = "(. " + cur + " " + it.arg + ")"
			case "idx":
				cur = "(idx " + cur + " " + it.arg + ")"
			case "call":
				if it.arg == "" {
					cur = "(call " + cur + " [])"
				} else {
					cur = "(call " + cur + " [" + it.arg + "])"
				}
			}
			*pos++
		}
	}
	if !have {
		return "", false
	}
	reduceTo(-1, false, true)
	return cur, true
}

// ---- registration model ----------------------------------------------------------------------

type regModel struct {
	atom    bool // the builders carry the operand plugin: `@` is an operand supplied by an expression interceptor
	ids     map[string]token.Type
	order   []string
	prefix  map[token.Type]bool
	infix   map[token.Type]int
	postfix map[token.Type]bool
}

var builtinInfix = []token.Type{token.ASSIGN, token.PLUS_ASSIGN, token.MINUS_ASSIGN, token.OR, token.AND, token.EQ, token.NOT_EQ, token.LT, token.GT, token.LTE, token.GTE,
	token.PLUS, token.MINUS, token.MULTIPLY, token.DIVIDE, token.MODULO}
var builtinPrefixOps = []token.Type{token.NOT, token.MINUS, token.INCREMENT, token.DECREMENT}
var builtinPostfixOps = []token.Type{token.INCREMENT, token.DECREMENT}

func newRegModel() *regModel {
	m := &regModel{ids: map[string]token.Type{}, prefix: map[token.Type]bool{}, infix: map[token.Type]int{}, postfix: map[token.Type]bool{}}
	for _, t := range builtinInfix {
		m.infix[t] = -1 // has the role; level irrelevant to the registration model
	}
	for _, t := range builtinPrefixOps {
		m.prefix[t] = true
	}
	for _, t := range builtinPostfixOps {
		m.postfix[t] = true
	}
	return m
}

func (m *regModel) snapshot() *regModel {
	c := newRegModel()
	c.atom = m.atom
	for k, v := range m.ids {
		c.ids[k] = v
	}
	c.order = append([]string(nil), m.order...)
	for k, v := range m.prefix {
		c.prefix[k] = v
	}
	for k, v := range m.infix {
		c.infix[k] = v
	}
	for k, v := range m.postfix {
		c.postfix[k] = v
	}
	return c
}

// ---- a builder pair under simulation -------------------------------------------------------------

type pair struct {
	lb    *lexer.Builder
	pb    *parser.Builder
	model *regModel
	words map[string]token.Type // live retag table (harness state, read by the token interceptor)
	acc   []regOp               // accepted operations (for the twin builder)
	icpt  int                   // expression interceptors on the parser builder: 0 none, 1 pass-through, 2 re-entrant, 3 both
}

type regOp struct {
	Kind  string `json:"op"` // tok | prefix | infix | postfix | build
	Name  string `json:"name,omitempty"`
	Type  int    `json:"type,omitempty"`
	Level int    `json:"level,omitempty"`
	Pair  int    `json:"pair"`
	Note  string `json:"note,omitempty"`
	Via   int    `json:"via,omitempty"` // 0 direct, 1 plugin (argument), 2 plugin (captured builder), 3 nested plugin
}

var wordPool = []string{"OPa", "OPb", "OPc", "OPd", "OPe", "OPf"}

// oddNames are registered as token types only (never given an operator role, never used in probes):
// keyword spellings and names that are no identifiers. Their ids must be as stable, distinct and
// outside the built-in range as any other name's.
var oddNames = []string{"null", "true", "false", "function", "let", "if", "else", "while", "for", "return", "", " ", "+", "&&", "a b", "\u00e9", "EOF", "ILLEGAL"}

// runSmart: every builder of the current run (pairs, twins, the plain reference) has smart semicolons on. The
// option only concerns a `(` or `[` that starts a line, which no probe contains: grouping must not change.
var runSmart bool

func newPair() *pair { return newPairWith(0) }

// useAtomPlugin: an operand form supplied by a plugin the documented way - an expression interceptor that
// recognises a token no built-in parse function exists for (`@`, an ILLEGAL token to the lexer) and returns a
// node for it. Wherever an operand may stand - also after a registered prefix operator - it must be accepted.
func useAtomPlugin(pb *parser.Builder) {
	pb.UseExpressionInterceptor(func(ps *parser.Parser, next func() ast.Expression) ast.Expression {
		if ps.CurrentToken.Type == token.ILLEGAL && ps.CurrentToken.Literal == "@" {
			return ps.ParseRemainingExpression(&ast.Identifier{Token: ps.CurrentToken, Value: "@"})
		}
		return next()
	})
}

func drawIcpt(ch *kernel.Chooser) int {
	icpt := ch.Weighted(5, 1, 1, 1)
	if ch.Bool(1, 4) {
		icpt |= 4
	}
	return icpt
}

// newPairWith: the builders may carry transparent expression interceptors (a pass-through one, one that parses
// the prefix itself and lets the parser continue); registered operators must group the same with them.
func newPairWith(icpt int) *pair {
	p := &pair{lb: lexer.NewBuilder(), model: newRegModel(), words: map[string]token.Type{}, icpt: icpt}
	p.lb.UseTokenInterceptor(func(l *lexer.Lexer, next func() token.Token) token.Token {
		t := next()
		if t.Type == token.IDENT {
			if tt, ok := p.words[t.Literal]; ok {
				t.Type = tt
			}
		}
		return t
	})
	p.pb = parser.NewBuilder(p.lb).WithSmartSemicolon(runSmart)
	if icpt&4 != 0 {
		useAtomPlugin(p.pb)
		p.model.atom = true
	}
	if icpt&1 != 0 {
		p.pb.UseExpressionInterceptor(func(_ *parser.Parser, next func() ast.Expression) ast.Expression { return next() })
	}
	if icpt&2 != 0 {
		p.pb.UseExpressionInterceptor(func(ps *parser.Parser, _ func() ast.Expression) ast.Expression {
			left := ps.ParsePrefixExpression()
			return ps.ParseRemainingExpression(left)
		})
	}
	return p
}

func mkPrefix(word string) func(token.Token, func() ast.Expression) ast.Expression {
	return func(tok token.Token, right func() ast.Expression) ast.Expression {
		return &CNode{Role: "prefix", Op: word, R: right(), Prec: ast.PrecedenceUnary}
	}
}
func mkInfix(word string, level int) func(token.Token, ast.Expression, func() ast.Expression) ast.Expression {
	return func(tok token.Token, left ast.Expression, right func() ast.Expression) ast.Expression {
		return &CNode{Role: "infix", Op: word, L: left, R: right(), Prec: level}
	}
}
func mkPostfix(word string) func(token.Token, ast.Expression) ast.Expression {
	return func(tok token.Token, left ast.Expression) ast.Expression {
		return &CNode{Role: "postfix", Op: word, L: left, Prec: ast.PrecedenceCall}
	}
}

// apply performs one registration on the real builders; returns (id, refused).
func (p *pair) applyReal(op regOp) (token.Type, bool) {
	if op.Kind == "tok" {
		return p.lb.RegisterTokenType(op.Name), false
	}
	// operators are registered directly or from inside a plugin (Install), in the spellings users write:
	// through the builder the plugin is handed, through the builder variable it closed over, nested
	reg := func(b *parser.Builder) bool {
		switch op.Kind {
		case "prefix":
			return b.RegisterPrefixOperator(token.Type(op.Type), mkPrefix(op.Name)) != nil
		case "infix":
			return b.RegisterInfixOperator(token.Type(op.Type), op.Level, mkInfix(op.Name, op.Level)) != nil
		case "postfix":
			return b.RegisterPostfixOperator(token.Type(op.Type), mkPostfix(op.Name)) != nil
		}
		return false
	}
	refused := false
	switch op.Via {
	case 1:
		p.pb.Install(func(b *parser.Builder) { refused = reg(b) })
	case 2:
		p.pb.Install(func(*parser.Builder) { refused = reg(p.pb) })
	case 3:
		p.pb.Install(func(b *parser.Builder) { b.Install(func(b2 *parser.Builder) { refused = reg(b2) }) })
	default:
		refused = reg(p.pb)
	}
	return 0, refused
}

var builtinSym = map[token.Type]string{token.ASSIGN: "=", token.PLUS_ASSIGN: "+=", token.MINUS_ASSIGN: "-=", token.OR: "||", token.AND: "&&", token.EQ: "==", token.NOT_EQ: "!=", token.LT: "<", token.GT: ">",
	token.LTE: "<=", token.GTE: ">=", token.PLUS: "+", token.MINUS: "-", token.MULTIPLY: "*", token.DIVIDE: "/", token.MODULO: "%", token.NOT: "!", token.INCREMENT: "++", token.DECREMENT: "--"}

// built-in binary operators by level (public level constants)
type bop struct {
	sym   string
	level int
}

var builtinBinary = []bop{{"||", parser.LOGICAL_OR}, {"&&", parser.LOGICAL_AND}, {"==", parser.EQUALITY}, {"!=", parser.EQUALITY}, {"<", parser.COMPARISON}, {">", parser.COMPARISON},
	{"<=", parser.COMPARISON}, {">=", parser.COMPARISON}, {"+", parser.SUM}, {"-", parser.SUM}, {"*", parser.PRODUCT}, {"/", parser.PRODUCT}, {"%", parser.PRODUCT}}

// substitute: a left-associative built-in binary operator of the given level, if one exists.
func substituteFor(level int) (string, bool) {
	switch level {
	case parser.LOGICAL_OR:
		return "||", true
	case parser.LOGICAL_AND:
		return "&&", true
	case parser.EQUALITY:
		return "==", true
	case parser.COMPARISON:
		return "<", true
	case parser.SUM:
		return "+", true
	case parser.PRODUCT:
		return "*", true
	}
	return "", false
}

// lexerOwnTypes: every token type a plugin-free lexer emits for a text made of all printable ASCII characters, the
// usual multi-character operators, literals and keywords (type -> one literal it was given to). Computed once.
var lexerOwn map[token.Type]string

func lexerOwnTypes() map[token.Type]string {
	if lexerOwn != nil {
		return lexerOwn
	}
	lexerOwn = map[token.Type]string{}
	var sb strings.Builder
	for c := 33; c < 127; c++ {
		if c == '"' || c == '\'' || c == '`' || c == '/' {
			continue
		}
		sb.WriteByte(byte(c))
		sb.WriteByte(' ')
	}
	sb.WriteString(" / == != <= >= && || ++ -- += -= *= /= %= => === !== ** ?? ?. ... << >> >>> & | ^ ~ ? : 1 2.5 0x1F 'a' \"b\" `c` ")
	sb.WriteString("let function return if else while for true false null var const new this typeof in of do break continue class\n")
	toks, _ := xutil.LexAllToEnd(lexer.NewBuilder(), sb.String())
	for _, t := range toks {
		if _, ok := lexerOwn[t.Type]; !ok {
			lexerOwn[t.Type] = t.Literal
		}
	}
	return lexerOwn
}

// ---- probe generation ---------------------------------------------------------------------------------

var operandNames = []string{"a", "b", "c", "d", "e", "f", "g", "h", "k", "m"}

type probe struct {
	items []item
	text  string
	focus string // description for coverage counters
}

func render(items []item) string {
	var sb strings.Builder
	for i, it := range items {
		if i > 0 {
			if it.tight {
				// nothing between a built-in prefix operator and its operand: `-1`, `!a`
			} else if it.brk {
				sb.WriteString("\n  ")
			} else {
				sb.WriteByte(' ')
			}
		}
		sb.WriteString(it.text)
	}
	return sb.String()
}

// neighbours: every built-in operator that can stand next to a registered operator
type neighbour struct {
	name string
	mk   func(operand string) []item // for prefix/suffix neighbours applied to an operand
	inf  *item                       // for infix neighbours
}

// dotItems: member access is a left-associative binary operator of level MEMBER
// whose right operand is the property name (so an operator registered above
// MEMBER binds the property first, as for any tighter operator).
func dotItems() []item {
	return []item{{kind: kInfix, text: ".", label: ".", level: parser.MEMBER}, {kind: kOperand, text: "p", label: "p"}}
}

func infixItem(sym string, level int, right bool) item {
	return item{kind: kInfix, text: sym, label: sym, level: level, right: right}
}

func regInfixItem(word string, level int) item {
	return item{kind: kInfix, text: word, label: word, level: level, word: word}
}

// genProbe builds a probe around registered operator R (role/level from the snapshot).
func genProbe(ch *kernel.Chooser, snap *regModel, st *kernel.Stats) (probe, bool) {
	// registered operators available in this snapshot, in deterministic order
	type rop struct {
		word  string
		role  string
		level int
	}
	var avail []rop
	for _, w := range snap.order {
		t := snap.ids[w]
		if snap.prefix[t] {
			avail = append(avail, rop{w, "prefix", 0})
		}
		if l, ok := snap.infix[t]; ok && l > 0 {
			avail = append(avail, rop{w, "infix", l})
		}
		if snap.postfix[t] {
			avail = append(avail, rop{w, "postfix", 0})
		}
	}
	if len(avail) == 0 {
		return probe{}, false
	}
	next := 0
	operand := func() item {
		if snap.atom && ch.Bool(1, 4) {
			st.Inc("probe.operand_supplied_by_expression_interceptor")
			return item{kind: kOperand, text: "@", label: "@"}
		}
		if ch.Bool(1, 8) {
			// a numeric literal is an operand like any other (no operator may fuse with it)
			st.Inc("probe.numeric_literal_operand")
			n := []string{"1", "7", "42"}[ch.Choose(3)]
			return item{kind: kOperand, text: n, label: n}
		}
		n := operandNames[next%len(operandNames)]
		next++
		return item{kind: kOperand, text: n, label: n}
	}
	r := avail[ch.Choose(len(avail))]
	var items []item
	// a decorated operand: optional built-in prefix / suffix, kept away from shapes only Pratt mechanics define
	decorated := func(allowPrefix bool) []item {
		var out []item
		if allowPrefix && ch.Bool(1, 4) {
			sym := []string{"-", "!", "-", "!", "++", "--"}[ch.Choose(6)]
			out = append(out, item{kind: kPrefix, text: sym, label: sym})
			st.Inc("neighbour.builtin_prefix")
		}
		if ch.Bool(1, 6) {
			// a parenthesised operand, possibly with a built-in binary inside: a multi-token head
			out = append(out, item{kind: kOpen, text: "("})
			out = append(out, operand())
			if ch.Bool(1, 2) {
				b := builtinBinary[ch.Choose(len(builtinBinary))]
				out = append(out, infixItem(b.sym, b.level, false), operand())
			}
			out = append(out, item{kind: kClose, text: ")"})
			st.Inc("neighbour.parenthesised_operand")
		} else {
			out = append(out, operand())
		}
		switch ch.Weighted(10, 2, 2, 2, 2) {
		case 1:
			out = append(out, item{kind: kSuffix, text: "++", label: "++", level: parser.POSTFIX, shape: "post"})
			st.Inc("neighbour.builtin_postfix")
		case 2:
			out = append(out, dotItems()...)
			st.Inc("neighbour.member")
		case 3:
			out = append(out, item{kind: kSuffix, text: "[ i ]", level: parser.MEMBER, shape: "idx", arg: "i"})
			st.Inc("neighbour.index")
		case 4:
			out = append(out, item{kind: kSuffix, text: "( x )", level: parser.CALL, shape: "call", arg: "x"})
			st.Inc("neighbour.call")
		}
		return out
	}
	anyInfix := func() item {
		// built-in binary, or another registered infix operator
		var regs []rop
		for _, a := range avail {
			if a.role == "infix" {
				regs = append(regs, a)
			}
		}
		if len(regs) > 0 && ch.Bool(1, 4) {
			o := regs[ch.Choose(len(regs))]
			st.Inc("neighbour.registered_infix")
			return regInfixItem(o.word, o.level)
		}
		b := builtinBinary[ch.Choose(len(builtinBinary))]
		st.Inc("neighbour.builtin_binary")
		return infixItem(b.sym, b.level, false)
	}
	switch r.role {
	case "infix":
		// [x N1] A R B [N2 y] with N1/N2 every built-in binary operator (or another registered one)
		side := ch.Choose(3) // 0 left neighbour, 1 right neighbour, 2 both
		if side == 0 || side == 2 {
			items = append(items, decorated(true)...)
			items = append(items, anyInfix())
			st.Inc(fmt.Sprintf("cover.infix_L%02d.left_neighbour", r.level))
		}
		// no prefix operator directly after an infix operator tighter than unary (Pratt-mechanics-only shape)
		items = append(items, decorated(len(items) == 0 || items[len(items)-1].level <= lvUnary)...)
		items = append(items, regInfixItem(r.word, r.level))
		items = append(items, decorated(r.level <= lvUnary)...)
		if side == 1 || side == 2 {
			ni := anyInfix()
			items = append(items, ni)
			items = append(items, decorated(ni.level <= lvUnary)...)
			st.Inc(fmt.Sprintf("cover.infix_L%02d.right_neighbour", r.level))
		}
		if ch.Bool(1, 6) {
			// same operator twice: associativity
			items = append(items, regInfixItem(r.word, r.level))
			items = append(items, decorated(r.level <= lvUnary)...)
			st.Inc("probe.same_operator_twice")
		}
		// assignment as outermost neighbour on the left: target = whole
		if ch.Bool(1, 8) {
			sym := []string{"=", "+=", "-="}[ch.Choose(3)]
			pre := []item{{kind: kOperand, text: "t", label: "t"}, infixItem(sym, parser.ASSIGNMENT, true)}
			if sym != "=" {
				pre[1].label = sym
			}
			items = append(pre, items...)
			st.Inc("neighbour.assignment")
		}
	case "prefix":
		items = append(items, item{kind: kPrefix, text: r.word, label: r.word, word: r.word})
		items = append(items, decorated(false)...)
		if ch.Bool(3, 4) {
			ni := anyInfix()
			items = append(items, ni)
			items = append(items, decorated(ni.level <= lvUnary)...)
		}
		if ch.Bool(1, 3) {
			pre := append(decorated(true), anyInfix())
			if pre[len(pre)-1].level <= lvUnary {
				items = append(pre, items...)
			}
		}
		st.Inc("cover.prefix")
	case "postfix":
		items = append(items, decorated(true)...)
		items = append(items, item{kind: kSuffix, text: r.word, label: r.word, level: parser.CALL, shape: "post", word: r.word})
		switch ch.Weighted(3, 2, 2, 2) {
		case 1:
			items = append(items, dotItems()...)
		case 2:
			items = append(items, item{kind: kSuffix, text: "( x )", level: parser.CALL, shape: "call", arg: "x"})
		case 3:
			items = append(items, item{kind: kSuffix, text: "++", label: "++", level: parser.POSTFIX, shape: "post"})
		}
		if ch.Bool(2, 3) {
			ni := anyInfix()
			items = append(items, ni)
			items = append(items, decorated(ni.level <= lvUnary)...)
		}
		if ch.Bool(1, 3) {
			pre := append(decorated(true), anyInfix())
			items = append(pre, items...)
		}
		st.Inc("cover.postfix")
	}
	// layout: a line break may precede any infix operator (built-in or registered) — JavaScript and xjs
	// continue the expression there; never before a suffix (++, call, index), where they do not
	for i := 1; i < len(items); i++ {
		// ... and may follow any prefix operator (built-in or registered): the operand is on the next line
		if items[i-1].kind == kPrefix && items[i].kind != kOpen && ch.Bool(1, 6) {
			items[i].brk = true
			st.Inc("probe.line_break_after_prefix_operator")
		}
		if items[i-1].kind == kPrefix && items[i-1].word == "" && items[i].kind == kOperand && !items[i].brk && items[i].text != "@" && ch.Bool(1, 3) {
			items[i].tight = true
			st.Inc("probe.operand_written_directly_after_builtin_prefix_operator")
		}
		if items[i].kind == kInfix && ch.Bool(1, 6) {
			items[i].brk = true
			if items[i].word != "" {
				st.Inc("probe.line_break_before_registered_infix_operator")
			}
		}
	}
	return probe{items: items, text: render(items), focus: r.role}, true
}

// substituted renders the probe with every registered operator replaced by a
// built-in one of the same level/role; ok=false when some operator has no built-in counterpart.
func substituted(items []item, snap *regModel) (text string, relabel map[string]string, ok bool) {
	relabel = map[string]string{}
	out := make([]item, len(items))
	for i, it := range items {
		out[i] = it
		if it.word == "" {
			continue
		}
		switch it.kind {
		case kInfix:
			sym, has := substituteFor(it.level)
			if !has {
				return "", nil, false
			}
			out[i].text = sym
			relabel[it.word] = sym
		case kPrefix:
			out[i].text = "!"
			relabel["pre:"+it.word] = "!"
		case kSuffix:
			// a call-level suffix: an empty call
			return "", nil, false // handled by the reference model (a call has a different tree shape)
		}
	}
	return render(out), relabel, true
}

func parseExpr(pb *parser.Builder, text string) (ast.Expression, string) {
	o := xutil.Parse(pb, text)
	if o.Panic != nil {
		return nil, fmt.Sprintf("PANIC %v @ %s", o.Panic, xutil.TopFrames(o.Stack, 3))
	}
	if o.Err != nil {
		return nil, "ERRORS " + xutil.ErrorsString(o.Errors)
	}
	if len(o.Program.Statements) != 1 {
		return nil, fmt.Sprintf("STATEMENTS %d", len(o.Program.Statements))
	}
	es, ok := o.Program.Statements[0].(*ast.ExpressionStatement)
	if !ok {
		return nil, fmt.Sprintf("STATEMENT %T", o.Program.Statements[0])
	}
	return es.Expression, ""
}

// ---- the run ------------------------------------------------------------------------------------------

type built struct {
	pair   int
	pb     *parser.Builder // builder at build time is shared; parser built immediately
	parser *parser.Parser
	snap   *regModel
	text   string
	pr     probe
	hist   int
}

// builtinHost: a role may be registered on a built-in token that lacks it (postfix `!` is the library's own
// example). Whatever token hosts the operator, it must group like the same operator on a fresh dynamic token.
var builtinHosts = []struct {
	role string
	t    token.Type
	sym  string
}{
	{"postfix", token.NOT, "!"}, {"postfix", token.MODULO, "%"}, {"postfix", token.GT, ">"},
	{"prefix", token.PLUS, "+"}, {"prefix", token.MULTIPLY, "*"}, {"prefix", token.LT, "<"},
	{"infix", token.NOT, "!"},
}

func (e *Engine) builtinHostScenario(ch *kernel.Chooser, st *kernel.Stats) kernel.RunResult {
	res := kernel.RunResult{Evals: 1, Nontrivial: true}
	h := builtinHosts[ch.Choose(len(builtinHosts))]
	level := 2 + ch.Choose(12)
	icpt := drawIcpt(ch)
	const word = "OPz"
	// pair D: the operator on a dynamic token; pair B: the same operator on the built-in token
	d, b := newPairWith(icpt), newPairWith(icpt)
	id := d.lb.RegisterTokenType(word)
	d.words[word] = id
	d.model.ids[word] = id
	d.model.order = append(d.model.order, word)
	var refusedD, refusedB bool
	switch h.role {
	case "prefix":
		_, refusedD = d.applyReal(regOp{Kind: "prefix", Name: word, Type: int(id)})
		_, refusedB = b.applyReal(regOp{Kind: "prefix", Name: word, Type: int(h.t)})
		d.model.prefix[id] = true
	case "infix":
		_, refusedD = d.applyReal(regOp{Kind: "infix", Name: word, Type: int(id), Level: level})
		_, refusedB = b.applyReal(regOp{Kind: "infix", Name: word, Type: int(h.t), Level: level})
		d.model.infix[id] = level
	default:
		_, refusedD = d.applyReal(regOp{Kind: "postfix", Name: word, Type: int(id)})
		_, refusedB = b.applyReal(regOp{Kind: "postfix", Name: word, Type: int(h.t)})
		d.model.postfix[id] = true
	}
	st.Inc("probe.operator_hosted_on_builtin_token_without_that_role")
	res.Fingerprint = kernel.Mix(kernel.Hash64(h.role+h.sym), uint64(level)*7+uint64(icpt))
	if refusedD || refusedB {
		res.Violations = append(res.Violations, kernel.Violation{Property: "C05", Kind: "refusal", Signature: "refusal|" + h.role + "|builtin-host",
			Detail: fmt.Sprintf("Register%sOperator was refused (dynamic token: %v, built-in token %s which has no %s role: %v)", strings.Title(h.role), refusedD, h.sym, h.role, refusedB)})
		return res
	}
	// the role is now taken on both hosts: the same registration again must be refused on both
	var again regOp
	switch h.role {
	case "prefix":
		again = regOp{Kind: "prefix", Name: word + "2"}
	case "infix":
		again = regOp{Kind: "infix", Name: word + "2", Level: 2 + ch.Choose(12)}
	default:
		again = regOp{Kind: "postfix", Name: word + "2"}
	}
	again.Type = int(id)
	_, r1 := d.applyReal(again)
	again.Type = int(h.t)
	_, r2 := b.applyReal(again)
	if !r1 || !r2 {
		res.Violations = append(res.Violations, kernel.Violation{Property: "C05", Kind: "refusal", Signature: "refusal|" + h.role + "|builtin-host-duplicate",
			Detail: fmt.Sprintf("a second Register%sOperator for a token that already has that role was accepted (dynamic token: refused=%v; built-in token %s: refused=%v)", strings.Title(h.role), r1, h.sym, r2)})
		return res
	}
	for try := 0; try < 6; try++ {
		pr, ok := genProbe(ch, d.model, st)
		if !ok {
			continue
		}
		clash, uses := false, false
		hosted := make([]item, len(pr.items))
		for i, it := range pr.items {
			hosted[i] = it
			if it.word == word {
				hosted[i].text = h.sym
				uses = true
			} else if it.text == h.sym || strings.Contains(it.text, h.sym) {
				clash = true // the symbol also occurs as itself: its built-in meaning would be in play
			}
		}
		if clash || !uses {
			continue
		}
		res.Evals++
		textD, textB := render(pr.items), render(hosted)
		a, aerr := parseExpr(d.pb, textD)
		x, xerr := parseExpr(b.pb, textB)
		sa, sx := "", ""
		if aerr == "" {
			sa = sexpr(a, nil)
		}
		if xerr == "" {
			sx = sexpr(x, nil)
		}
		if (aerr == "") != (xerr == "") || sa != sx {
			res.Violations = append(res.Violations, kernel.Violation{Property: "C05", Kind: "grouping", Signature: "substitution|builtin-host|" + h.role,
				Detail:       fmt.Sprintf("%s operator (level %d) hosted on the built-in token %s: %q parses as %s %s; the same operator on a dynamic token, %q, parses as %s %s", h.role, level, h.sym, textB, sx, xerr, textD, sa, aerr),
				Materialised: map[string]any{"role": h.role, "symbol": h.sym, "level": level, "probe_dynamic": textD, "probe_builtin_host": textB}})
			return res
		}
	}
	return res
}

func (e *Engine) Run(prop string, ch *kernel.Chooser, st *kernel.Stats) kernel.RunResult {
	runSmart = ch.Bool(1, 4)
	if runSmart {
		st.Inc("probe.builders_with_smart_semicolons")
	}
	if ch.Bool(1, 12) {
		return e.builtinHostScenario(ch, st)
	}
	nPairs := 1 + ch.Weighted(3, 2)
	pairs := make([]*pair, nPairs)
	for i := range pairs {
		pairs[i] = newPairWith(drawIcpt(ch))
		if pairs[i].icpt != 0 {
			st.Inc("probe.builders_with_expression_interceptors")
		}
		if pairs[i].icpt&4 != 0 {
			st.Inc("probe.builders_with_operand_plugin")
		}
	}
	if nPairs > 1 {
		st.Inc("probe.two_builders_alive")
	}
	nOps := 2 + ch.Choose(22)
	if e.tier == "thorough" && ch.Bool(1, 4) {
		nOps += ch.Choose(48) // thorough tier: longer registration histories
	}
	var hist []regOp
	var viol []kernel.Violation
	add := func(kind, sig, detail string) {
		for _, v := range viol {
			if v.Signature == sig {
				return
			}
		}
		viol = append(viol, kernel.Violation{Property: "C05", Kind: kind, Signature: sig, Detail: detail,
			Materialised: map[string]any{"history": append([]regOp(nil), hist...)}})
	}
	var deferred []built
	res := kernel.RunResult{Evals: 1}
	plain := xutil.PlainBuilder(xutil.Mode{Smart: runSmart})
	useAtomPlugin(plain)

	checkProbe := func(pi int, p *pair, snap *regModel, pr probe, pb *parser.Builder, pre *parser.Parser, when string) {
		res.Evals++
		// 1. parse with the real parser
		var got ast.Expression
		var perr string
		if pre != nil {
			o := func() (o xutil.ParseOutcome) {
				defer func() {
					if r := recover(); r != nil {
						o.Panic = r
					}
				}()
				prog, err := pre.ParseProgram()
				o.Program, o.Err, o.Errors = prog, err, pre.Errors()
				return
			}()
			switch {
			case o.Panic != nil:
				perr = fmt.Sprintf("PANIC %v", o.Panic)
			case o.Err != nil:
				perr = "ERRORS " + xutil.ErrorsString(o.Errors)
			case len(o.Program.Statements) != 1:
				perr = fmt.Sprintf("STATEMENTS %d", len(o.Program.Statements))
			default:
				if es, ok := o.Program.Statements[0].(*ast.ExpressionStatement); ok {
					got = es.Expression
				} else {
					perr = "not an expression statement"
				}
			}
		} else {
			got, perr = parseExpr(pb, pr.text)
		}
		lowLevel := 0
		for _, it := range pr.items {
			if it.word != "" && it.kind == kInfix && it.level <= parser.LOWEST {
				lowLevel = it.level
			}
		}
		if perr != "" {
			if lowLevel > 0 {
				add("grouping", fmt.Sprintf("infix-level-not-parsed|level=%d", lowLevel),
					fmt.Sprintf("pair %d, %s: probe %q uses an infix operator registered (without error) at level %d, but it is not parsed: %s", pi, when, pr.text, lowLevel, perr))
				return
			}
			add("grouping", "probe-rejected|"+pr.focus, fmt.Sprintf("pair %d, %s: probe %q (all operators registered before the build) fails to parse: %s", pi, when, pr.text, perr))
			return
		}
		gotS := sexpr(got, nil)
		// 2. substitution oracle: same expression with built-in operators of the same level, parsed by a plain parser
		if subText, relabel, ok := substituted(pr.items, snap); ok {
			st.Inc("oracle.substitution_used")
			want, werr := parseExpr(plain, subText)
			if werr != "" {
				st.Inc("oracle.substitute_rejected_by_plain_parser")
			} else {
				ws := sexpr(want, nil)
				gs := sexpr(got, relabel)
				if ws != gs {
					add("grouping", "substitution|"+pr.focus, fmt.Sprintf("pair %d, %s: probe %q groups as %s; with the registered operators replaced by built-in operators of the same level (%q) the plain parser groups as %s", pi, when, pr.text, gotS, subText, ws))
					return
				}
			}
		}
		// 3. operator-stack reference model
		pos := 0
		ref, ok := reference(pr.items, &pos)
		if !ok || pos != len(pr.items) {
			st.Inc("oracle.reference_model_cannot_group")
			return
		}
		st.Inc("oracle.reference_model_used")
		if ref != gotS {
			add("grouping", "model|"+pr.focus, fmt.Sprintf("pair %d, %s: probe %q groups as %s, a left-associative operator of that level / unary prefix / call-level suffix groups as %s", pi, when, pr.text, gotS, ref))
		}
	}

	// a built-in-only control probe: registered operators must not disturb built-in syntax,
	// and the reference model must agree with xjs on built-in-only expressions (guards the oracle)
	control := func(pi int, p *pair) {
		var items []item
		n := 2 + ch.Choose(4)
		next := 0
		for i := 0; i < n; i++ {
			if i > 0 {
				b := builtinBinary[ch.Choose(len(builtinBinary))]
				items = append(items, infixItem(b.sym, b.level, false))
			}
			if ch.Bool(1, 5) && (i == 0 || items[len(items)-1].level <= lvUnary) {
				items = append(items, item{kind: kPrefix, text: "-", label: "-"})
			}
			nm := operandNames[next%len(operandNames)]
			next++
			items = append(items, item{kind: kOperand, text: nm, label: nm})
			switch ch.Weighted(8, 1, 1, 1) {
			case 1:
				items = append(items, item{kind: kSuffix, text: "++", label: "++", level: parser.POSTFIX, shape: "post"})
			case 2:
				items = append(items, dotItems()...)
			case 3:
				items = append(items, item{kind: kSuffix, text: "( x )", level: parser.CALL, shape: "call", arg: "x"})
			}
		}
		text := render(items)
		a, aerr := parseExpr(p.pb, text)
		b, berr := parseExpr(plain, text)
		if aerr != berr || (aerr == "" && sexpr(a, nil) != sexpr(b, nil)) {
			add("builtin-disturbed", "builtin-disturbed", fmt.Sprintf("pair %d: built-in-only expression %q parses as %s %s with the registered operators present, %s %s on a plain parser", pi, text, sexpr(a, nil), aerr, sexpr(b, nil), berr))
			return
		}
		pos := 0
		if ref, ok := reference(items, &pos); ok && berr == "" {
			if ref != sexpr(b, nil) {
				st.Inc("oracle.model_vs_builtin_disagreements")
			} else {
				st.Inc("oracle.model_vs_builtin_agreements")
			}
		}
	}

	for i := 0; i < nOps && len(viol) == 0; i++ {
		pi := ch.Choose(nPairs)
		p := pairs[pi]
		switch ch.Weighted(4, 2, 5, 2, 5) {
		case 0: // RegisterTokenType
			name := wordPool[ch.Choose(len(wordPool))]
			odd := ch.Bool(1, 4)
			if odd {
				name = oddNames[ch.Choose(len(oddNames))]
				st.Inc("probe.keyword_or_non_identifier_name_registered")
			}
			if ch.Bool(1, 5) {
				// a near-variant of a name registered earlier on this pair (other case, extra blank, prefix, doubled):
				// a different name, so a different id
				var earlier []string
				for _, o := range p.acc {
					if o.Kind == "tok" && o.Name != "" {
						earlier = append(earlier, o.Name)
					}
				}
				if len(earlier) > 0 {
					base := earlier[ch.Choose(len(earlier))]
					switch ch.Choose(7) {
					case 0:
						name = strings.ToUpper(base)
					case 1:
						name = strings.ToLower(base)
					case 2:
						name = strings.ToUpper(base[:1]) + base[1:]
					case 3:
						name = base + " "
					case 4:
						name = " " + base
					case 5:
						name = base[:len(base)-1]
					case 6:
						name = base + base
					}
					isWord := false
					for _, w := range wordPool {
						isWord = isWord || w == name
					}
					if isWord {
						// the variant is itself an operator word: registered as one (it may get a role later)
						odd = false
					} else {
						odd = true
						st.Inc("probe.near_variant_of_an_earlier_name_registered")
					}
				}
			}
			op := regOp{Kind: "tok", Name: name, Pair: pi}
			id, _ := p.applyReal(op)
			_, seen := p.model.ids[name]
			if seen {
				st.Inc("probe.same_name_registered_twice")
				if id != p.model.ids[name] {
					add("token-id", "token-id|unstable", fmt.Sprintf("pair %d: RegisterTokenType(%q) returned %d, earlier it returned %d", pi, name, id, p.model.ids[name]))
				}
			} else {
				// distinct from every other name and from every built-in type
				var same []string
				for other, oid := range p.model.ids {
					if oid == id {
						same = append(same, other)
					}
				}
				if len(same) > 0 {
					sort.Strings(same)
					add("token-id", "token-id|collision", fmt.Sprintf("pair %d: RegisterTokenType(%q) returned %d, which is also the id of %q", pi, name, id, same[0]))
				}
				if int(id) <= int(token.NULL) {
					add("token-id", "token-id|builtin-range", fmt.Sprintf("pair %d: RegisterTokenType(%q) returned %d, inside the built-in token range", pi, name, id))
				}
				// "distinct from every built-in type" also means: from every type the lexer hands out on its own
				if lit, ok := lexerOwnTypes()[id]; ok {
					add("token-id", "token-id|type-the-lexer-emits-itself", fmt.Sprintf("pair %d: RegisterTokenType(%q) returned %d, which is the type a plain lexer gives to %q", pi, name, id, lit))
				}
				p.model.ids[name] = id
				if !odd {
					p.model.order = append(p.model.order, name)
					p.words[name] = id
				}
			}
			op.Type = int(id)
			hist = append(hist, op)
			p.acc = append(p.acc, op)
		case 1, 2, 3: // operator registration
			role := []string{"prefix", "infix", "postfix"}[ch.Weighted(2, 5, 2)]
			var tt token.Type
			name := ""
			builtin := false
			if len(p.model.order) == 0 || ch.Bool(1, 5) {
				// a built-in operator token that already has this role: must be refused
				switch role {
				case "prefix":
					tt = builtinPrefixOps[ch.Choose(len(builtinPrefixOps))]
				case "infix":
					tt = builtinInfix[ch.Choose(len(builtinInfix))]
				case "postfix":
					tt = builtinPostfixOps[ch.Choose(len(builtinPostfixOps))]
				}
				name, builtin = builtinSym[tt], true
			} else {
				name = p.model.order[ch.Choose(len(p.model.order))]
				tt = p.model.ids[name]
			}
			level := 1 + ch.Choose(13)
			if ch.Bool(1, 3) {
				// levels with a built-in binary operator, more often
				level = parser.LOGICAL_OR + ch.Choose(6)
			}
			outOfRange := false
			if role == "infix" && !builtin && ch.Bool(1, 12) {
				// a level outside 1..13: whether it is accepted is not specified; whatever happens must be consistent
				level = []int{0, -1, -7, 14, 20, 1000}[ch.Choose(6)]
				outOfRange = true
				st.Inc("probe.infix_level_outside_1_13")
			}
			op := regOp{Kind: role, Name: name, Type: int(tt), Level: level, Pair: pi, Via: ch.Weighted(6, 1, 1, 1)}
			if op.Via != 0 {
				st.Inc("probe.operator_registered_from_inside_a_plugin")
			}
			// the property does not say what infix+postfix on one token means: do not generate it
			if !builtin {
				if role == "postfix" {
					if _, has := p.model.infix[tt]; has {
						continue
					}
				}
				if role == "infix" && p.model.postfix[tt] {
					continue
				}
			}
			wantRefused := false
			switch role {
			case "prefix":
				wantRefused = p.model.prefix[tt]
			case "infix":
				_, wantRefused = p.model.infix[tt]
			case "postfix":
				wantRefused = p.model.postfix[tt]
			}
			_, refused := p.applyReal(op)
			if outOfRange && !wantRefused {
				// accepted or refused, both are fine; the model follows what happened. An accepted operator at such a
				// level has the role (later duplicates are refused) but is never used in probes.
				hist = append(hist, op)
				if refused {
					op.Note = "refused (level outside 1..13)"
					if pr, ok := genProbe(ch, p.model, st); ok {
						checkProbe(pi, p, p.model, pr, p.pb, nil, "after a refused out-of-range registration")
					}
				} else {
					p.model.infix[tt] = -2
					p.acc = append(p.acc, op)
				}
				continue
			}
			if refused != wantRefused {
				add("refusal", fmt.Sprintf("refusal|%s|want=%v|builtin=%v", role, wantRefused, builtin),
					fmt.Sprintf("pair %d: Register%sOperator(%s) error=%v, but the token %s that role", pi, strings.Title(role), name, refused, map[bool]string{true: "already has", false: "does not have"}[wantRefused]))
				hist = append(hist, op)
				continue
			}
			if refused {
				op.Note = "refused"
				st.Inc("fault.refused_registration")
				if builtin {
					st.Inc("fault.refused_builtin_duplicate")
				} else {
					st.Inc("fault.refused_repeated_registration")
				}
				hist = append(hist, op)
				// a refusal leaves the parser unchanged: probe right away against the unchanged model
				if pr, ok := genProbe(ch, p.model, st); ok {
					checkProbe(pi, p, p.model, pr, p.pb, nil, "after a refused registration")
				}
				control(pi, p)
				continue
			}
			switch role {
			case "prefix":
				p.model.prefix[tt] = true
			case "infix":
				p.model.infix[tt] = level
			case "postfix":
				p.model.postfix[tt] = true
			}
			hist = append(hist, op)
			p.acc = append(p.acc, op)
		case 4: // Build (+ probe now, or later)
			pr, ok := genProbe(ch, p.model, st)
			if !ok {
				control(pi, p)
				continue
			}
			hist = append(hist, regOp{Kind: "build", Pair: pi, Note: pr.text})
			if ch.Bool(1, 3) {
				// parser built now, parsed after later registrations: must reflect exactly the registrations accepted before the build
				deferred = append(deferred, built{pair: pi, parser: p.pb.Build(pr.text), snap: p.model.snapshot(), pr: pr, hist: len(hist)})
				st.Inc("probe.parser_built_before_later_registration")
			} else {
				checkProbe(pi, p, p.model, pr, p.pb, nil, "right after Build")
			}
			if ch.Bool(1, 3) {
				control(pi, p)
			}
		}
	}
	// deferred parsers
	for _, d := range deferred {
		if len(viol) > 0 {
			break
		}
		checkProbe(d.pair, pairs[d.pair], d.snap, d.pr, nil, d.parser, fmt.Sprintf("parser built at history step %d, parsed at the end", d.hist))
	}
	// final probes on every pair + twin builder with the refused operations deleted
	for pi, p := range pairs {
		if len(viol) > 0 {
			break
		}
		twin := newPairWith(p.icpt)
		for _, op := range p.acc {
			id, refused := twin.applyReal(op)
			if op.Kind == "tok" {
				for _, w := range wordPool {
					if w == op.Name {
						twin.words[op.Name] = id // only operator words are lexed as their token type, as on the pair itself
					}
				}
				if int(id) != op.Type {
					add("token-id", "token-id|twin", fmt.Sprintf("pair %d: replaying the accepted registrations on a fresh builder gives %q id %d instead of %d", pi, op.Name, id, op.Type))
				}
			} else if refused {
				add("refusal", "refusal|twin", fmt.Sprintf("pair %d: replaying only the accepted registrations on a fresh builder, %s %s is refused", pi, op.Kind, op.Name))
			}
		}
		for j := 0; j < 3; j++ {
			pr, ok := genProbe(ch, p.model, st)
			if !ok {
				break
			}
			checkProbe(pi, p, p.model, pr, p.pb, nil, "at the end of the history")
			a, aerr := parseExpr(p.pb, pr.text)
			b, berr := parseExpr(twin.pb, pr.text)
			if aerr != berr || (aerr == "" && sexpr(a, nil) != sexpr(b, nil)) {
				add("refusal", "refusal|parser-changed", fmt.Sprintf("pair %d: probe %q parses as %s %s under the history, %s %s under the same history with the refused operations deleted", pi, pr.text, sexpr(a, nil), aerr, sexpr(b, nil), berr))
			}
		}
		control(pi, p)
	}
	res.Violations = viol
	res.Steps = int64(len(hist))
	fp := uint64(14695981039346656037)
	for _, op := range hist {
		fp = kernel.Mix(fp, kernel.Hash64(fmt.Sprintf("%s|%s|%d|%d|%d|%s", op.Kind, op.Name, op.Type, op.Level, op.Pair, op.Note)))
	}
	res.Fingerprint = fp
	res.Nontrivial = len(hist) >= 3
	if len(hist) <= 8 {
		res.Sample = map[string]any{"history": hist}
	}
	return res
}

func init() {
	kernel.Register(&kernel.EngineInfo{
		Name:       "regsim",
		Properties: []string{"C05"},
		Level:      "exploration",
		New:        New,
		Tier: func(prop, tier string) kernel.TierSpec {
			if tier == "thorough" {
				return kernel.TierSpec{Runs: 20_000_000, WallSeconds: 1200, ShrinkSecs: 180, RunBudgetMs: 30000}
			}
			return kernel.TierSpec{Runs: 400_000, WallSeconds: 45, ShrinkSecs: 20, RunBudgetMs: 20000}
		},
		Rule:      "each run = one seeded registration history (<=24 operations over RegisterTokenType / Register{Prefix,Infix,Postfix}Operator with repeated names, built-in tokens and levels 1..13, on one or two builder pairs) interleaved with Build operations (parsed at once or after later registrations) and probe expressions placing a registered operator next to built-in binary, unary, postfix, call, member, index and assignment operators on either side; distinct = distinct hash of the history including probe texts; non-trivial = at least 3 history operations",
		Real:      []string{"lexer.Builder (RegisterTokenType, token interceptor chain)", "parser.Builder (operator registration, duplicate bookkeeping, Build)", "parser (binding-power table copy, registered operator parse functions)"},
		Simulated: []string{"the registering plugins and their order", "refused registrations as injected faults", "the caller building parsers at arbitrary points of the history"},
		Oracles:   []string{"reference registration model (name->id, role sets seeded with the built-in operator roles)", "substitution: the same probe with built-in operators of the same level parsed by a plain parser", "operator-stack (shunting-yard) grouping model, cross-checked against xjs on built-in-only expressions in every run", "twin builder replaying only the accepted registrations"},
		Assume: []string{
			"levels are the exported constants parser.LOWEST..parser.MEMBER (public API), 13 = one above MEMBER",
			"histories never put an infix and a postfix role on the same token (the property does not define that)",
			"probe shapes whose meaning only Pratt mechanics define (a prefix operator directly after an infix operator tighter than unary) are not generated",
			"sampling over histories and probes; levels x neighbours x sides are all reached many times per batch (see cover.* counters)",
		},
		RequiredProbes: map[string][]string{"C05": {"fault.refused_builtin_duplicate", "fault.refused_repeated_registration", "probe.same_name_registered_twice", "probe.two_builders_alive", "probe.parser_built_before_later_registration",
			"oracle.substitution_used", "oracle.reference_model_used", "oracle.model_vs_builtin_agreements", "cover.prefix", "cover.postfix", "neighbour.assignment", "neighbour.call", "neighbour.member"}},
	})
}
