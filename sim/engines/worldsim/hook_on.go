package worldsim

import (
	"os"

	"verifsim/hooks"
)

// With the verif tag /repo's guarded yield points are live: lexing, token
// lookahead, every write of the code writer and both ends of Compile become
// places where the scheduler may switch tasks, also in plugin-free jobs.
func init() {
	if os.Getenv("VERIF_C14_NO_HOOKS") == "1" {
		return // knob for sensitivity experiments: behave as if /repo had no yield points of its own
	}
	hooks.OnPoint = func(site int) {
		if w := activeWorld; w != nil {
			w.yield(sHookBase + site)
			return
		}
		hookPointsOutsideWorld.Add(1)
	}
}
