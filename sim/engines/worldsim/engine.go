package worldsim

import (
	"bytes"
	"context"
	"encoding/json"
	"fmt"
	"os"
	"os/exec"
	"strconv"
	"strings"
	"sync"
	"syscall"
	"time"

	"github.com/xjslang/xjs/ast"

	"verifsim/kernel"
)

type soloRef struct {
	res    *JobResult // hashes only
	index  map[string]uint64
	failed string
}

type Engine struct {
	tier     string
	exe      string
	pool     int
	solo     map[uint64]*soloRef
	specs    map[uint64]*JobSpec
	poisoned bool
	kwSnap   []string
	pending  []kernel.Violation // violations found while computing solo references
}

func New(tier string) kernel.Engine {
	exe, _ := os.Executable()
	e := &Engine{tier: tier, exe: exe, pool: 384, solo: map[uint64]*soloRef{}, specs: map[uint64]*JobSpec{}, kwSnap: snapshotKeywords()}
	if tier == "thorough" {
		e.pool = 6144
	}
	if v, err := strconv.Atoi(os.Getenv("VERIF_C14_POOL")); err == nil && v > 0 {
		e.pool = v
	}
	return e
}

func (e *Engine) Name() string   { return "worldsim" }
func (e *Engine) Close()         {}
func (e *Engine) Poisoned() bool { return e.poisoned }

func (e *Engine) spec(seed uint64) *JobSpec {
	s := e.specs[seed]
	if s == nil {
		s = GenJob(seed)
		e.specs[seed] = s
	}
	return s
}

// ---- solo references: one fresh child process per job ----------------------------------

const soloTimeout = 30 * time.Second
const evalTimeout = 20 * time.Second

// selfDestruct: a child never outlives its usefulness, whatever happened to its parent.
func selfDestruct(d time.Duration) {
	time.AfterFunc(d, func() { os.Exit(4) })
}

func runSoloChild(exe string, seed uint64, full bool) (*JobResult, error) {
	ctx, cancel := context.WithTimeout(context.Background(), soloTimeout)
	defer cancel()
	args := []string{"solo", strconv.FormatUint(seed, 10)}
	if full {
		args = append(args, "full")
	}
	cmd := exec.CommandContext(ctx, exe, args...)
	cmd.SysProcAttr = &syscall.SysProcAttr{Pdeathsig: syscall.SIGKILL}
	var out, errb bytes.Buffer
	cmd.Stdout, cmd.Stderr = &out, &errb
	err := cmd.Run()
	if ctx.Err() != nil {
		return &JobResult{Seed: seed, Failed: "solo run did not terminate within " + soloTimeout.String()}, nil
	}
	if err != nil {
		return &JobResult{Seed: seed, Failed: "solo child failed: " + err.Error() + " " + tailStr(errb.String(), 600)}, nil
	}
	r := &JobResult{}
	if err := json.Unmarshal(out.Bytes(), r); err != nil {
		return nil, fmt.Errorf("solo child output unreadable: %v", err)
	}
	return r, nil
}

func tailStr(s string, n int) string {
	if len(s) > n {
		return s[len(s)-n:]
	}
	return s
}

// SoloMain is the `verifsim solo <seed> [full]` command: run one job alone.
func SoloMain(args []string) {
	if len(args) < 1 {
		os.Exit(2)
	}
	seed, err := strconv.ParseUint(args[0], 10, 64)
	if err != nil {
		os.Exit(2)
	}
	full := len(args) > 1 && args[1] == "full"
	selfDestruct(soloTimeout + 5*time.Second)
	env := &nopEnv{}
	res := RunJob(GenJob(seed), env, full)
	res.Yields = env.yields + hookPointsOutsideWorld.Load()
	b, _ := json.Marshal(res)
	os.Stdout.Write(b)
}

func diffResults(a, b *JobResult) (key string) {
	if len(a.KVs) != len(b.KVs) {
		return fmt.Sprintf("<result has %d entries vs %d>", len(a.KVs), len(b.KVs))
	}
	for i := range a.KVs {
		if a.KVs[i].Key != b.KVs[i].Key {
			return a.KVs[i].Key + " vs " + b.KVs[i].Key
		}
		if a.KVs[i].Hash != b.KVs[i].Hash {
			return a.KVs[i].Key
		}
	}
	if strings.Join(a.Invariants, "|") != strings.Join(b.Invariants, "|") {
		return "<invariants>"
	}
	return ""
}

func invViolations(seed uint64, where string, invs []string) []kernel.Violation {
	var out []kernel.Violation
	seen := map[string]bool{}
	for _, iv := range invs {
		name, detail, _ := strings.Cut(iv, "\x00")
		if seen[name] {
			continue
		}
		seen[name] = true
		out = append(out, kernel.Violation{Property: "C14", Kind: "invariant", Signature: "invariant|" + name,
			Detail: fmt.Sprintf("job %d (%s): %s: %s", seed, where, name, detail)})
	}
	return out
}

// ensureSolo computes missing references, two fresh processes per job (the
// second samples per-process randomness: map order, allocation addresses).
func (e *Engine) ensureSolo(seeds []uint64, st *kernel.Stats) {
	var missing []uint64
	seen := map[uint64]bool{}
	for _, s := range seeds {
		if _, ok := e.solo[s]; !ok && !seen[s] {
			seen[s] = true
			missing = append(missing, s)
		}
	}
	if len(missing) == 0 {
		return
	}
	type pair struct {
		a, b *JobResult
		err  error
	}
	out := make([]pair, len(missing))
	var wg sync.WaitGroup
	sem := make(chan struct{}, 4)
	for i, s := range missing {
		wg.Add(1)
		go func(i int, s uint64) {
			defer wg.Done()
			sem <- struct{}{}
			defer func() { <-sem }()
			a, err := runSoloChild(e.exe, s, false)
			if err != nil {
				out[i].err = err
				return
			}
			b, err := runSoloChild(e.exe, s, false)
			out[i] = pair{a, b, err}
		}(i, s)
	}
	wg.Wait()
	for i, s := range missing {
		p := out[i]
		if p.err != nil {
			fmt.Fprintf(os.Stderr, "worldsim: %v\n", p.err)
			os.Exit(2) // infrastructure trouble, never a verdict
		}
		ref := &soloRef{res: p.a, index: map[string]uint64{}}
		st.Inc("solo_references_computed")
		switch {
		case p.a.Failed != "" || p.b.Failed != "":
			ref.failed = p.a.Failed + p.b.Failed
			st.Inc("solo_failed_jobs_excluded")
		default:
			if k := diffResults(p.a, p.b); k != "" {
				st.Inc("solo_nondeterministic")
				e.pending = append(e.pending, kernel.Violation{Property: "C14", Kind: "nondeterministic", Signature: "determinism|two-fresh-processes|" + keyClass(k),
					Detail:       fmt.Sprintf("job %d run alone in two fresh processes gave different results at %s", s, k),
					Materialised: map[string]any{"job": e.spec(s)}})
				ref.failed = "nondeterministic"
			}
			e.pending = append(e.pending, invViolations(s, "alone in a fresh process", p.a.Invariants)...)
			for _, kv := range p.a.KVs {
				ref.index[kv.Key] = kv.Hash
			}
		}
		e.solo[s] = ref
	}
}

func keyClass(key string) string {
	parts := strings.Split(key, "/")
	if len(parts) < 2 {
		return key
	}
	c := strings.TrimRight(parts[1], "0123456789.")
	c = strings.TrimPrefix(c, "re")
	return c
}

// ---- one simulated run -------------------------------------------------------------------------

func (e *Engine) Run(prop string, ch *kernel.Chooser, st *kernel.Stats) kernel.RunResult {
	if e.poisoned {
		return kernel.RunResult{}
	}
	big := e.tier == "thorough"
	nJobs := 1 + ch.Weighted(2, 4, 4, 3, 2, 1, 1, 1)
	if big && ch.Bool(1, 8) {
		nJobs = 8 + ch.Choose(9)
	}
	seeds := make([]uint64, nJobs)
	for i := range seeds {
		seeds[i] = 1 + uint64(ch.Choose(e.pool))
	}
	w := &World{ch: ch, st: st, fin: make(chan struct{}, 1), compiling: map[*ast.Program]int{}, kwSnap: e.kwSnap, maxTasks: 16}
	w.strategy = ch.Weighted(2, 4, 4, 2)
	switch w.strategy {
	case stratRandom:
		w.den = []int{1, 2, 8, 32, 128}[ch.Choose(5)]
		w.gap = 1 + ch.Choose(2*w.den)
	case stratRoundRobin:
		w.quantum = []int{1, 2, 5, 17, 60}[ch.Choose(5)]
		w.qleft = w.quantum
	}
	w.spawnNum = ch.Choose(5)
	kernel.PauseWatchdog() // child processes computing references are not the code under test
	e.ensureSolo(seeds, st)
	kernel.ResumeWatchdog()
	var viols []kernel.Violation
	viols = append(viols, e.pending...)
	e.pending = nil
	// jobs whose solo run fails (hang, crash, nondeterminism) are not isolation subjects
	var live []uint64
	est := int64(0)
	for _, s := range seeds {
		if r := e.solo[s]; r.failed == "" {
			live = append(live, s)
			est += r.res.Yields
		}
	}
	if w.strategy == stratPCT {
		w.change = map[int64]bool{}
		for i, d := 0, ch.Choose(4); i < d; i++ {
			if est > 0 {
				w.change[1+int64(ch.Choose(int(est)))] = true
			}
		}
	}
	st.Inc("strategy." + stratNames[w.strategy])
	results := make([]*JobResult, len(live))
	ids := map[uint64]int{}
	for i, s := range live {
		i, s := i, s
		ids[s]++
		w.newTask(i, fmt.Sprintf("job%d", i), func() {
			results[i] = RunJob(e.spec(s), &jobEnv{w: w, job: i}, true)
		})
	}
	activeWorld = w
	w.run()
	activeWorld = nil
	for _, n := range ids {
		if n > 1 {
			st.Inc("probe.same_job_twice_in_one_world")
		}
	}
	for _, sd := range live {
		sp := e.spec(sd)
		for _, in := range sp.Inputs {
			if in.Long {
				st.Inc("probe.job_with_long_flat_program")
				break
			}
		}
		for _, ic := range sp.StmtIcpts {
			if ic.Kind == 3 {
				st.Inc("probe.job_whose_plugin_replaces_the_root_context")
				break
			}
		}
	}
	if len(live) >= 2 {
		st.Inc("fault.colliding_dynamic_token_ids_between_live_jobs")
	}
	for i := range siteNames {
		if w.sites[i] > 0 {
			st.Add("yields."+siteNames[i], w.sites[i])
		}
	}
	st.Add("context_switches", w.switches)
	st.Add("tasks", int64(len(w.tasks)))
	if len(w.tasks) >= 9 {
		st.Inc("probe.nine_or_more_tasks")
	}

	sched := fmt.Sprintf("strategy=%s jobs=%v tasks=%d yields=%d switches=%d", stratNames[w.strategy], live, len(w.tasks), w.steps, w.switches)
	mat := func() map[string]any {
		var specs []*JobSpec
		for _, s := range live {
			specs = append(specs, e.spec(s))
		}
		return map[string]any{"schedule": sched, "jobs": specs}
	}
	if w.kwBroken != "" {
		viols = append(viols, kernel.Violation{Property: "C14", Kind: "global-table-modified", Signature: "global|token.Keywords",
			Detail: w.kwBroken + "; " + sched, Materialised: mat()})
	}
	check := func(seed uint64, got *JobResult, where string) {
		ref := e.solo[seed]
		if k := diffResults(ref.res, got); k != "" && k != "<invariants>" {
			detail := fmt.Sprintf("job %d %s differs from the same job alone in a fresh process at %q; %s", seed, where, k, sched)
			kernel.PauseWatchdog()
			fullRef, err := runSoloChild(e.exe, seed, true)
			kernel.ResumeWatchdog()
			if err == nil && fullRef.Failed == "" {
				for i, kv := range fullRef.KVs {
					if i < len(got.KVs) && got.KVs[i].Key == kv.Key && got.KVs[i].Hash != kv.Hash {
						detail += "\n--- alone:\n" + clipAround(kv.Text, got.KVs[i].Text) + "\n--- here:\n" + clipAround(got.KVs[i].Text, kv.Text)
						break
					}
				}
			}
			viols = append(viols, kernel.Violation{Property: "C14", Kind: "isolation", Signature: "isolation|" + keyClass(k), Detail: detail, Materialised: mat()})
		}
		viols = append(viols, invViolations(seed, where, got.Invariants)...)
	}
	for i, s := range live {
		if results[i] == nil {
			continue
		}
		check(s, results[i], "in the simulated world")
	}
	// residue: after the world has finished, a job run by itself must still behave as alone
	if len(viols) == 0 && len(live) > 0 {
		c := live[ch.Choose(len(live))]
		got := RunJob(e.spec(c), &nopEnv{}, true)
		n := len(viols)
		check(c, got, "run by itself after the world finished")
		for i := n; i < len(viols); i++ {
			viols[i].Signature = "residue|" + strings.TrimPrefix(viols[i].Signature, "isolation|")
		}
		st.Inc("residue_checks")
	}
	if len(viols) > 0 {
		// process-global state may be polluted from here on: nothing this worker observes later is trustworthy
		e.poisoned = true
	}
	return kernel.RunResult{Violations: viols, Fingerprint: kernel.Mix(w.fp, uint64(len(w.tasks))), Nontrivial: w.switches > 0 && len(live) >= 2,
		Steps: w.steps, Evals: 1, Sample: map[string]any{"schedule": sched}}
}

func clipAround(s, other string) string {
	i := 0
	for i < len(s) && i < len(other) && s[i] == other[i] {
		i++
	}
	lo := i - 120
	if lo < 0 {
		lo = 0
	}
	hi := i + 200
	if hi > len(s) {
		hi = len(s)
	}
	pre := ""
	if lo > 0 {
		pre = "…"
	}
	return fmt.Sprintf("%s%s (first difference at byte %d)", pre, s[lo:hi], i)
}

// EvalIsolated evaluates a tape in a fresh process (minimisation must not run
// in a process whose global state a previous violation may have polluted).
func (e *Engine) EvalIsolated(prop string, tape []uint32) []kernel.Violation {
	ctx, cancel := context.WithTimeout(context.Background(), evalTimeout)
	defer cancel()
	cmd := exec.CommandContext(ctx, e.exe, "worldeval", e.tier)
	cmd.SysProcAttr = &syscall.SysProcAttr{Pdeathsig: syscall.SIGKILL}
	in, _ := json.Marshal(tape)
	cmd.Stdin = bytes.NewReader(in)
	var out bytes.Buffer
	cmd.Stdout = &out
	cmd.Env = append(os.Environ(), "VERIF_C14_POOL="+strconv.Itoa(e.pool))
	if err := cmd.Run(); err != nil {
		return nil
	}
	var vs []kernel.Violation
	if json.Unmarshal(out.Bytes(), &vs) != nil {
		return nil
	}
	return vs
}

// EvalMain is the `verifsim worldeval <tier>` command.
func EvalMain(args []string) {
	tier := "quick"
	if len(args) > 0 {
		tier = args[0]
	}
	var tape []uint32
	if err := json.NewDecoder(os.Stdin).Decode(&tape); err != nil {
		os.Exit(2)
	}
	selfDestruct(evalTimeout + 5*time.Second)
	eng := New(tier)
	res := eng.Run("C14", kernel.NewReplayChooser(tape), kernel.NewStats())
	b, _ := json.Marshal(res.Violations)
	os.Stdout.Write(b)
}

func init() {
	kernel.Register(&kernel.EngineInfo{
		Name:       "worldsim",
		Properties: []string{"C14"},
		Level:      "exploration",
		New:        New,
		Tier: func(prop, tier string) kernel.TierSpec {
			if tier == "thorough" {
				return kernel.TierSpec{Runs: 20_000_000, WallSeconds: 1500, ShrinkSecs: 240, RunBudgetMs: 15000}
			}
			return kernel.TierSpec{Runs: 60_000, WallSeconds: 40, ShrinkSecs: 25, RunBudgetMs: 10000}
		},
		Rule:      "each run = one simulated process: 1..16 jobs drawn from a seeded pool (builders with colliding dynamic token ids, operators, interceptors, valid and corrupted inputs, several parsers per builder, several compilations per tree), one scheduling strategy (sequential control, random switching, PCT-style priorities with change points, round-robin quanta), parts of a job run inline or as own tasks; every yield decision comes from the tape; distinct = distinct sequence of (task, yield site) at context switches; non-trivial = at least two live jobs and at least one context switch",
		Real:      []string{"token", "lexer", "parser", "ast", "compiler", "sourcemap", "debug (ToString)"},
		Simulated: []string{"caller tasks and the scheduler (goroutines parked/released one at a time at plugin callback seams and API-call boundaries)", "all plugins: token/statement/expression interceptors, operator constructors, wrapper and operator AST nodes", "the faulty storage medium (corrupted inputs)"},
		Oracles:   []string{"the same job run alone in a fresh child process (twice: two fresh processes must agree)", "intra-job invariants: repeated compilation agrees, compile leaves the tree dump unchanged, source map does not change code, debug string equals compact compilation", "token.Keywords snapshot at every context switch", "residue check: a job re-run by itself after the world finished"},
		Assume: []string{
			"a lexer.Builder, parser.Builder or compiler.Compiler is used by one task at a time; parsers of one builder and trees are shared between tasks",
			"yield points inside xjs itself (lexer/parser NextToken, CodeWriter writes, Compile begin/end) exist only through the guarded simhook package (build tag verif); regions between them are atomic for the simulator and are covered only by the supplementary -race parallel leg",
			"jobs whose solo run fails (hang, crash) are excluded from worlds and counted (that is C11's business, not isolation)",
			"sampling over job sets and schedules; not exhaustive",
		},
		RequiredProbes: map[string][]string{
			"C14": {"probe.switch_while_inside_ParseProgram", "probe.switch_while_inside_Compile", "probe.part_run_as_own_task", "probe.two_parsers_mid_parse_at_once",
				"fault.build_completed_while_another_task_is_parked_inside_ParseProgram", "fault.two_tasks_compiling_the_same_tree",
				"fault.compile_completed_while_another_task_is_parked_inside_Compile", "fault.colliding_dynamic_token_ids_between_live_jobs", "probe.nine_or_more_tasks", "probe.job_with_long_flat_program", "probe.job_whose_plugin_replaces_the_root_context"},
		},
		PostBatch: parallelLeg,
	})
}
