// Package worldsim decides C14: a simulated process hosts up to 16 caller
// tasks, each running a job (a script over xjs's public API: builders, plugins,
// several parsers per builder, many compilations per tree). A seeded
// cooperative scheduler owns every interleaving: tasks are real goroutines that
// are parked and released one at a time at the callback seams of the public API
// (token/statement/expression interceptors, operator constructors, WriteTo of
// plugin nodes) and at API-call boundaries. Oracle: every job's result equals
// the result the same job gives alone in a fresh child process.
package worldsim

import (
	"encoding/json"
	"fmt"
	"regexp"
	"runtime/debug"
	"sort"
	"strings"
	"sync/atomic"

	"github.com/xjslang/xjs/ast"
	"github.com/xjslang/xjs/compiler"
	xdebug "github.com/xjslang/xjs/debug"
	"github.com/xjslang/xjs/lexer"
	"github.com/xjslang/xjs/parser"
	"github.com/xjslang/xjs/token"

	"verifsim/engines/faultsim"
	"verifsim/gen"
	"verifsim/kernel"
	"verifsim/xutil"
)

// ---- yield sites ---------------------------------------------------------------

const (
	sStep = iota // between API calls of a job script
	sTokPre
	sTokPost
	sStmtPre
	sStmtPost
	sExprPre
	sExprPost
	sOpPre
	sOpPost
	sWritePre
	sWritePost
	sJoin
	sHookBase // + simhook site (guarded yield points inside /repo, build tag verif)
	nSites    = sHookBase + 5
)

var siteNames = [nSites]string{"step", "tok<", "tok>", "stmt<", "stmt>", "expr<", "expr>", "op<", "op>", "write<", "write>", "join",
	"hook:lexer.NextToken", "hook:parser.NextToken", "hook:CodeWriter.write", "hook:Compile.begin", "hook:Compile.end"}

var (
	hooksActive            bool
	activeWorld            *World
	hookPointsOutsideWorld atomic.Int64
)

// Env is what a job sees of the world it runs in. Solo runs and the parallel
// leg use nopEnv; the simulator implements it with its scheduler.
type Env interface {
	Yield(site int)
	// Spawn runs fn as a part of the calling job: inline or as a new task, the
	// environment decides. The returned function blocks until fn has finished.
	Spawn(name string, fn func()) (wait func())
	// Note lets the job tell the environment about phases (probe counters).
	Note(ev int, obj any)
}

const (
	evParseBegin = iota
	evParseEnd
	evCompileBegin
	evCompileEnd
	evBuildEnd
)

type nopEnv struct{ yields int64 }

func (n *nopEnv) Yield(int)                        { n.yields++ }
func (n *nopEnv) Spawn(_ string, fn func()) func() { fn(); return func() {} }
func (n *nopEnv) Note(int, any)                    {}

// ---- job specification -----------------------------------------------------------

type OpSpec struct {
	Role    int    `json:"role"` // 0 prefix, 1 infix, 2 postfix
	Word    string `json:"word"` // registered token name == source word; "" => built-in token type (refusal expected)
	Builtin int    `json:"builtin,omitempty"`
	Level   int    `json:"level,omitempty"`
	// PrintLevel > 0: the node the operator builds reports this binding power to the printer (a plugin may want
	// its node parenthesised more, or less, eagerly than its parse level suggests)
	PrintLevel int `json:"print_level,omitempty"`
}

type IcptSpec struct {
	Kind  int `json:"kind"`  // stmt: 0 pass 1 observe 2 wrap 3 implicit-function root; expr: 0 pass 1 observe 2 wrap 3 re-enter; tok: 0 pass 1 observe 2 decorate (appends a comment)
	Every int `json:"every"` // act on every n-th invocation (per parser / lexer), n>=1
}

type CompileStep struct {
	Cfg   int  `json:"cfg"`   // index into xutil.AllConfigs()
	Reuse bool `json:"reuse"` // use this part's long-lived compiler for that configuration
}

type InputSpec struct {
	Text     string        `json:"text"`
	Fault    string        `json:"fault,omitempty"`
	Compiles []CompileStep `json:"compiles"`
	Debug    bool          `json:"debug"`
	LexAlone bool          `json:"lex_alone,omitempty"`
	Long     bool          `json:"long,omitempty"` // a long flat program (33..80 top-level statements)
	CRLF     bool          `json:"crlf,omitempty"` // every line end of the text is \r\n
	// LateTok: an observing token interceptor is installed on the shared lexer builder just before this input's Build
	LateTok bool `json:"late_tok,omitempty"`
	// Mode >= 0: just before this input's Build the shared builder is switched to tolerant = bit 0, smart = bit 1
	// (parsers built earlier keep the modes they were built with)
	Mode int `json:"mode"`
	// Reconf: successive WithPrettyPrint calls (each a partial option list) on ONE compiler, compiling after
	// each; options: 0 tabs, 1..9 n-1 spaces, 10 semi on, 11 semi off; -1 in first place = WithSourceMap first
	Reconf   [][]int `json:"reconf,omitempty"`
	LateOp   *OpSpec `json:"late_op,omitempty"` // registered on the shared builder just before this input's Build
	LateName string  `json:"late_name,omitempty"`
}

type Recompile struct {
	Pairs [][2]int `json:"pairs"` // (input index, configuration index)
}

type JobSpec struct {
	Seed       uint64      `json:"seed"`
	Names      []string    `json:"names"` // RegisterTokenType calls, in order, repeats allowed
	Ops        []OpSpec    `json:"ops"`
	TokIcpts   []IcptSpec  `json:"tok_icpts"`
	StmtIcpts  []IcptSpec  `json:"stmt_icpts"`
	ExprIcpts  []IcptSpec  `json:"expr_icpts"`
	ViaInstall bool        `json:"via_install"`
	Tolerant   bool        `json:"tolerant"`
	Smart      bool        `json:"smart"`
	Inputs     []InputSpec `json:"inputs"`
	Recompiles []Recompile `json:"recompiles"`
	// SecondPB: a second, plugin-free parser.Builder over the SAME lexer.Builder builds a parser for input 0
	// after all the first builder's parsers were built
	SecondPB bool `json:"second_pb,omitempty"`
	// SharedRecompile: the recompile tasks share one configured compiler per configuration
	SharedRecompile bool `json:"shared_recompile,omitempty"`
	// FillSources: the job completes every source map it gets the way a host does (file name, source name)
	FillSources bool `json:"fill_sources,omitempty"`
	// FirstCompileConcurrent: no part compiles anything; the trees meet their first compilations in the recompile tasks
	FirstCompileConcurrent bool     `json:"first_compile_concurrent,omitempty"`
	Shared                 [][2]int `json:"shared,omitempty"` // (input, configuration) compiled in this order by one compiler per configuration
}

var wordPool = []string{"OPA", "OPB", "OPC", "PRE", "POST", "PRF"}

var keywordRe = regexp.MustCompile(`\b(let|function|return|if|else|while|for|true|false|null)\b`)

func roleOf(word string) int {
	switch {
	case strings.HasPrefix(word, "PR"):
		return 0
	case strings.HasPrefix(word, "OP"):
		return 1
	}
	return 2
}

var builtinDup = []struct {
	role int
	t    token.Type
}{{1, token.PLUS}, {0, token.MINUS}, {2, token.INCREMENT}, {1, token.LPAREN}, {0, token.IDENT}, {1, token.ASSIGN}}

// GenJob derives a job from its seed alone (deterministic: no map iteration,
// no clock). Every colliding dynamic token id is deliberate: each lexer builder
// numbers its types from the same start, so two jobs' first registered words are
// the same token.Type with (usually) different roles and levels.
func GenJob(seed uint64) *JobSpec {
	ch := kernel.NewRecordChooser(seed ^ 0x5bd1e995c0ffee11)
	j := &JobSpec{Seed: seed}
	plain := ch.Bool(1, 5)
	j.Tolerant = ch.Bool(1, 3)
	j.Smart = ch.Bool(1, 3)
	var words []string
	if !plain {
		n := ch.Weighted(2, 3, 3, 2, 1)
		// a seeded permutation prefix of the pool: which word gets which id differs per job
		pool := append([]string(nil), wordPool...)
		for i := 0; i < n; i++ {
			k := i + ch.Choose(len(pool)-i)
			pool[i], pool[k] = pool[k], pool[i]
			words = append(words, pool[i])
			j.Names = append(j.Names, pool[i])
			if ch.Bool(1, 6) {
				j.Names = append(j.Names, pool[ch.Choose(i+1)]) // repeated registration of a known name
			}
		}
		for _, w := range words {
			op := OpSpec{Role: roleOf(w), Word: w}
			if op.Role == 1 {
				op.Level = 2 + ch.Choose(11) // ASSIGNMENT..MEMBER
			}
			if ch.Bool(1, 4) {
				op.PrintLevel = 1 + ch.Choose(13)
			}
			j.Ops = append(j.Ops, op)
			if ch.Bool(1, 8) {
				j.Ops = append(j.Ops, op) // same-role duplicate: refusal
			}
		}
		if ch.Bool(1, 4) {
			b := builtinDup[ch.Choose(len(builtinDup))]
			j.Ops = append(j.Ops, OpSpec{Role: b.role, Builtin: int(b.t), Level: 7})
		}
		drawIcpts := func(maxKind int) []IcptSpec {
			var out []IcptSpec
			for i, n := 0, ch.Weighted(3, 4, 2, 1); i < n; i++ {
				out = append(out, IcptSpec{Kind: ch.Choose(maxKind + 1), Every: 1 + ch.Weighted(4, 2, 1, 1)})
			}
			return out
		}
		j.TokIcpts = drawIcpts(1)
		if len(j.TokIcpts) > 0 && ch.Bool(1, 6) {
			// a plugin that decorates tokens: it appends a comment of its own to the leading comments of every n-th
			// token that follows a blank line or comment (the token's slice is the token's: nobody else sees it)
			j.TokIcpts[ch.Choose(len(j.TokIcpts))].Kind = 2
		}
		j.StmtIcpts = drawIcpts(2)
		if len(j.StmtIcpts) > 0 && ch.Bool(1, 8) {
			// a plugin that treats the script as the body of an implicit function: at the first step of a parse it
			// replaces the parser's root context by a function context (public PopContext / PushContext)
			j.StmtIcpts[ch.Choose(len(j.StmtIcpts))].Kind = 3
		}
		j.ExprIcpts = drawIcpts(3)
		j.ViaInstall = ch.Bool(1, 3)
	}
	nIn := 1 + ch.Weighted(4, 3, 1)
	curMode := 0
	if j.Tolerant {
		curMode |= 1
	}
	if j.Smart {
		curMode |= 2
	}
	ncfg := len(xutil.AllConfigs())
	for k := 0; k < nIn; k++ {
		cfg := gen.Config{MaxTokens: 12 + ch.Choose(40), MaxStmts: 1 + ch.Choose(4), MaxDepth: 2 + ch.Choose(3), MaxNest: 1 + ch.Choose(3),
			Comments: ch.Bool(1, 2), Multibyte: ch.Bool(1, 4), FuncHeavy: ch.Bool(1, 4)}
		if ch.Bool(1, 12) {
			// a long, flat program: many small top-level statements (whatever is done per statement, per run of
			// statements or per output chunk is done many times)
			cfg.MinStmts, cfg.MaxStmts = 33+ch.Choose(40), 80
			cfg.MaxTokens, cfg.MaxDepth, cfg.MaxNest = 900, 1+ch.Choose(2), 1
		}
		p := gen.Generate(ch, cfg)
		in := InputSpec{Text: p.Text, Long: cfg.MinStmts > 0}
		// statements that use the job's own words
		if len(words) > 0 {
			var sb strings.Builder
			sb.WriteString(in.Text)
			if !strings.HasSuffix(in.Text, "\n") && !strings.HasSuffix(in.Text, ";") {
				sb.WriteString(";")
			}
			for i, n := 0, 1+ch.Choose(3); i < n; i++ {
				sb.WriteString("\n" + customStmt(ch, words) + ";")
			}
			in.Text = sb.String()
		} else if ch.Bool(1, 3) {
			// a plain job that nevertheless contains another job's words: they must stay identifiers
			in.Text += "\nlet q = a " + wordPool[ch.Choose(len(wordPool))] + "\nb + 1;"
		}
		if ch.Bool(1, 4) {
			var f faultsim.Fault
			if fs := faultsim.EnumerateFaults(p); len(fs) > 0 && len(words) == 0 && ch.Bool(2, 3) {
				f = fs[ch.Choose(len(fs))]
			} else {
				f = faultsim.ByteFault(ch, in.Text)
			}
			in.Text, in.Fault = f.Text, f.Kind+":"+f.Ctx
		}
		if ch.Bool(1, 10) {
			// a keyword with two neighbouring letters transposed (`lte`, `fucntion`, `retrun`): what the parser says
			// about a near-keyword must be as repeatable as everything else
			if locs := keywordRe.FindAllStringIndex(in.Text, -1); len(locs) > 0 {
				l := locs[ch.Choose(len(locs))]
				k := l[0] + ch.Choose(l[1]-l[0]-1)
				b := []byte(in.Text)
				b[k], b[k+1] = b[k+1], b[k]
				in.Text = string(b)
				if in.Fault == "" {
					in.Fault = "keyword-typo"
				} else {
					in.Fault += "+keyword-typo"
				}
			}
		}
		if ch.Bool(1, 8) {
			// the file was saved with CRLF line ends (also inside multi-line literals and comments)
			in.Text = strings.ReplaceAll(strings.ReplaceAll(in.Text, "\r\n", "\n"), "\n", "\r\n")
			in.CRLF = true
		}
		// compilation plan: repeated configurations are wanted (shared compilers, repeated compilation)
		nc := 2 + ch.Choose(4)
		var used []int
		for i := 0; i < nc; i++ {
			var c int
			if len(used) > 0 && ch.Bool(1, 3) {
				c = used[ch.Choose(len(used))]
			} else if ch.Bool(1, 4) {
				c = 0 // compact
			} else {
				c = ch.Choose(ncfg)
			}
			used = append(used, c)
			in.Compiles = append(in.Compiles, CompileStep{Cfg: c, Reuse: ch.Bool(1, 2)})
		}
		in.Debug = ch.Bool(2, 3)
		in.LexAlone = ch.Bool(1, 3)
		in.LateTok = k > 0 && !plain && ch.Bool(1, 5)
		in.Mode = -1
		if k > 0 && ch.Bool(1, 3) {
			// a real switch: at least one of the two modes changes
			curMode ^= 1 + ch.Choose(3)
			in.Mode = curMode
		}
		if ch.Bool(1, 3) {
			for i, n := 0, 2+ch.Choose(3); i < n; i++ {
				var opts []int
				for o, m := 0, ch.Choose(3); o < m; o++ {
					opts = append(opts, ch.Choose(12))
				}
				if i == 0 && ch.Bool(1, 3) {
					opts = append([]int{-1}, opts...)
				}
				in.Reconf = append(in.Reconf, opts)
			}
		}
		if k > 0 && !plain && ch.Bool(1, 3) {
			// a registration that arrives after earlier parsers were built
			if ch.Bool(1, 2) && len(words) < len(wordPool) {
				for _, w := range wordPool {
					known := false
					for _, x := range words {
						if x == w {
							known = true
						}
					}
					if !known {
						in.LateName = w
						op := OpSpec{Role: roleOf(w), Word: w}
						if op.Role == 1 {
							op.Level = 2 + ch.Choose(11)
						}
						in.LateOp = &op
						words = append(words, w)
						break
					}
				}
			}
		}
		j.Inputs = append(j.Inputs, in)
	}
	j.SecondPB = ch.Bool(1, 4)
	j.FillSources = ch.Bool(1, 3)
	j.SharedRecompile = ch.Bool(1, 3)
	if ch.Bool(2, 3) {
		// few configurations, many trees: the same compiler meets different trees, and the same tree again
		c1, c2 := ch.Choose(ncfg), ch.Choose(ncfg)
		for i, n := 0, 2+ch.Choose(5); i < n; i++ {
			c := c1
			if ch.Bool(1, 3) {
				c = c2
			}
			j.Shared = append(j.Shared, [2]int{ch.Choose(len(j.Inputs)), c})
		}
	}
	if ch.Bool(1, 8) {
		// the very first compilations of the job's trees happen in several tasks at once: nothing has been
		// compiled, printed or dumped by a single task before (a lazily initialised field would be set then)
		j.FirstCompileConcurrent = true
		for k := range j.Inputs {
			j.Inputs[k].Compiles, j.Inputs[k].Debug, j.Inputs[k].Reconf = nil, false, nil
		}
		j.Shared = nil
		cfgA, cfgB := ch.Choose(ncfg), ch.Choose(ncfg)
		for r := 0; r < 2+ch.Choose(2); r++ {
			var rc Recompile
			for k := range j.Inputs {
				rc.Pairs = append(rc.Pairs, [2]int{k, []int{cfgA, cfgB}[(r+k)%2]})
			}
			j.Recompiles = append(j.Recompiles, rc)
		}
		return j
	}
	for r, n := 0, ch.Weighted(3, 2, 2, 1); r < n; r++ {
		var rc Recompile
		for i, m := 0, 1+ch.Choose(3); i < m; i++ {
			k := ch.Choose(len(j.Inputs))
			var c int
			if ch.Bool(1, 2) && len(j.Inputs[k].Compiles) > 0 {
				c = j.Inputs[k].Compiles[ch.Choose(len(j.Inputs[k].Compiles))].Cfg
			} else {
				c = ch.Choose(ncfg)
			}
			rc.Pairs = append(rc.Pairs, [2]int{k, c})
		}
		j.Recompiles = append(j.Recompiles, rc)
	}
	return j
}

var atoms = []string{"a", "b", "c", "x", "1", "2", "f(a)", "o.p", "(a + b)", "a[0]"}
var plainOps = []string{"+", "*", "==", "&&", "||", "<", "-", "%"}

func customStmt(ch *kernel.Chooser, words []string) string {
	var sb strings.Builder
	if ch.Bool(1, 3) {
		sb.WriteString("x = ")
	}
	n := 2 + ch.Choose(4)
	for i := 0; i < n; i++ {
		if i > 0 {
			// an infix word of the job, or a built-in operator
			var infix []string
			for _, w := range words {
				if roleOf(w) == 1 {
					infix = append(infix, w)
				}
			}
			if len(infix) > 0 && ch.Bool(2, 3) {
				if ch.Bool(1, 4) {
					sb.WriteString(" // note\n") // the operator token carries a leading comment
				}
				sb.WriteString(" " + infix[ch.Choose(len(infix))] + " ")
			} else {
				sb.WriteString(" " + plainOps[ch.Choose(len(plainOps))] + " ")
			}
		}
		for _, w := range words {
			if roleOf(w) == 0 && ch.Bool(1, 4) {
				if ch.Bool(1, 4) {
					sb.WriteString("// pre\n")
				}
				sb.WriteString(w + " ")
			}
		}
		sb.WriteString(atoms[ch.Choose(len(atoms))])
		for _, w := range words {
			if roleOf(w) == 2 && ch.Bool(1, 4) {
				sb.WriteString(" " + w)
			}
		}
	}
	return sb.String()
}

// ---- harness node types (what plugins define) -------------------------------------

// OpNode is the node built by the job's operator constructors.
type OpNode struct {
	Role  int
	Tok   token.Token
	L, R  ast.Expression
	Level int
	env   Env
}

func (n *OpNode) WriteTo(cw *ast.CodeWriter) {
	n.env.Yield(sWritePre)
	// plugins order the writer's helper calls as they please: a prefix node records its mapping and writes its
	// comments before anything else (whitespace may still be pending then), the others do so at the operator
	if n.Role == 0 {
		cw.AddMapping(n.Tok.Start)
		cw.WriteLeadingComments(n.Tok.LeadingComments)
	}
	cw.WriteRune('(')
	cw.WriteRune('«') // plugin nodes write whatever runes they like
	if n.L != nil {
		n.L.WriteTo(cw)
		cw.WriteSpace()
	}
	if n.Role != 0 {
		cw.WriteLeadingComments(n.Tok.LeadingComments)
		cw.AddMapping(n.Tok.Start)
	}
	cw.WriteString(n.Tok.Literal)
	if n.R != nil {
		cw.WriteSpace()
		n.R.WriteTo(cw)
	}
	cw.WriteRune(')')
	n.env.Yield(sWritePost)
}
func (n *OpNode) Precedence() int { return n.Level }

func pick(override, def int) int {
	if override > 0 {
		return override
	}
	return def
}

// ProbeStmt / ProbeExpr are transparent wrappers: they delegate printing and
// binding power, and give the scheduler a yield point inside Compile.
type ProbeStmt struct {
	Slot  int // which interceptor wrapped it: nesting order is installation order
	Inner ast.Statement
	env   Env
}

func (n *ProbeStmt) WriteTo(cw *ast.CodeWriter) {
	n.env.Yield(sWritePre)
	n.Inner.WriteTo(cw)
	n.env.Yield(sWritePost)
}

type ProbeExpr struct {
	Slot  int
	Inner ast.Expression
	env   Env
}

func (n *ProbeExpr) WriteTo(cw *ast.CodeWriter) {
	n.env.Yield(sWritePre)
	n.Inner.WriteTo(cw)
	n.env.Yield(sWritePost)
}
func (n *ProbeExpr) Precedence() int { return n.Inner.Precedence() }

// ---- results ------------------------------------------------------------------------

type KV struct {
	Key  string `json:"k"`
	Hash uint64 `json:"h"`
	Text string `json:"t,omitempty"`
}

type JobResult struct {
	Seed       uint64   `json:"seed"`
	KVs        []KV     `json:"kvs"`
	Invariants []string `json:"invariants,omitempty"` // violated intra-job invariants: "name\x00detail"
	Yields     int64    `json:"yields"`
	Failed     string   `json:"failed,omitempty"`
}

type sink struct {
	kvs  []KV
	invs []string
	full bool
	// results handed out by Compile are kept and looked at again when the job ends:
	// a later compilation (same compiler or not) must not change them
	kept []keptResult
	// parsers are kept too: what they report must not change when their siblings parse
	parsers []keptParser
}

type keptParser struct {
	k    int
	p    *parser.Parser
	errs string
}

type keptResult struct {
	key  string
	res  compiler.CompileResult
	text string
}

func renderResult(pan string, res compiler.CompileResult) string {
	sm := ""
	if res.SourceMap != nil {
		b, _ := json.Marshal(res.SourceMap)
		sm = string(b)
	}
	return pan + res.Code + "\n--map--\n" + sm
}

func (s *sink) put(key, text string) {
	kv := KV{Key: key, Hash: kernel.Hash64(text)}
	if s.full {
		kv.Text = text
	}
	s.kvs = append(s.kvs, kv)
}

func (s *sink) inv(name, detail string) { s.invs = append(s.invs, name+"\x00"+detail) }

type pullAbort struct{}

func guard(f func()) (pan string) {
	defer func() {
		if r := recover(); r != nil {
			if _, ok := r.(pullAbort); ok {
				pan = "aborted: token pull limit exceeded (no progress at end of input)"
				return
			}
			pan = fmt.Sprintf("panic: %v | %s", r, xutil.TopFrames(string(debug.Stack()), 3))
		}
	}()
	f()
	return ""
}

// ---- job runtime ----------------------------------------------------------------------

type plog struct {
	h      uint64
	n      [8]int // invocation counters per interceptor slot
	events int
}

type tlog struct {
	h     uint64
	pulls int
	limit int
	n     [8]int
}

type jobRun struct {
	spec  *JobSpec
	env   Env
	full  bool
	cfgs  []xutil.CompilerConfig
	types map[string]token.Type
	plogs map[*parser.Parser]*plog
	tlogs map[*lexer.Lexer]*tlog
	// curLimit: pull limit for lexers created by the Build in progress
	curLimit int
	twin     bool
	lateToks int // token interceptors installed after setup
	// modeOverride >= 0 (twin builders): the modes the builder is given once, at creation
	modeOverride int
	curTlog      *tlog // token log of the lexer created by the Build in progress
	lexOf        map[*parser.Parser]*tlog
	b            builders
}

func (j *jobRun) plogOf(p *parser.Parser) *plog {
	l := j.plogs[p]
	if l == nil {
		l = &plog{}
		j.plogs[p] = l
	}
	return l
}

func (j *jobRun) tlogOf(l *lexer.Lexer) *tlog {
	t := j.tlogs[l]
	if t == nil {
		t = &tlog{limit: j.curLimit}
		j.tlogs[l] = t
		j.curTlog = t
	}
	return t
}

func mixTok(h uint64, t token.Token) uint64 {
	h = kernel.Mix(h, uint64(t.Type))
	h = kernel.Mix(h, kernel.Hash64(t.Literal))
	h = kernel.Mix(h, uint64(t.Start.Line)<<20^uint64(t.Start.Column))
	return h
}

func (j *jobRun) register(s *sink, key string, op OpSpec) {
	var tt token.Type
	if op.Word == "" {
		tt = token.Type(op.Builtin)
	} else {
		tt = j.types[op.Word]
	}
	env := j.env
	var err error
	pan := guard(func() {
		switch op.Role {
		case 0:
			err = j.pb().RegisterPrefixOperator(tt, func(tok token.Token, right func() ast.Expression) ast.Expression {
				env.Yield(sOpPre)
				r := right()
				env.Yield(sOpPost)
				return &OpNode{Role: 0, Tok: tok, R: r, Level: pick(op.PrintLevel, parser.UNARY), env: env}
			})
		case 1:
			lvl := op.Level
			err = j.pb().RegisterInfixOperator(tt, lvl, func(tok token.Token, left ast.Expression, right func() ast.Expression) ast.Expression {
				env.Yield(sOpPre)
				r := right()
				env.Yield(sOpPost)
				return &OpNode{Role: 1, Tok: tok, L: left, R: r, Level: pick(op.PrintLevel, lvl), env: env}
			})
		default:
			err = j.pb().RegisterPostfixOperator(tt, func(tok token.Token, left ast.Expression) ast.Expression {
				env.Yield(sOpPre)
				return &OpNode{Role: 2, Tok: tok, L: left, Level: pick(op.PrintLevel, parser.POSTFIX), env: env}
			})
		}
	})
	switch {
	case pan != "":
		s.put(key, pan)
	case err != nil:
		s.put(key, "refused: "+err.Error())
	default:
		s.put(key, "accepted")
	}
}

// builders are kept behind accessors so that the setup order is explicit
type builders struct {
	lb *lexer.Builder
	pb *parser.Builder
}

var _ = compiler.New

func (j *jobRun) pb() *parser.Builder { return j.b.pb }

// Run executes the job in env and returns its canonical result.
func RunJob(spec *JobSpec, env Env, full bool) *JobResult {
	j := &jobRun{spec: spec, env: env, full: full, cfgs: xutil.AllConfigs(), types: map[string]token.Type{}, modeOverride: -1,
		plogs: map[*parser.Parser]*plog{}, tlogs: map[*lexer.Lexer]*tlog{}, lexOf: map[*parser.Parser]*tlog{}}
	main := &sink{full: full}
	j.setup(main)
	nIn := len(spec.Inputs)
	progs := make([]*ast.Program, nIn)
	partSinks := make([]*sink, nIn)
	waits := make([]func(), 0, nIn)
	for k := range spec.Inputs {
		k := k
		in := &spec.Inputs[k]
		if in.LateName != "" {
			env.Yield(sStep)
			pan := guard(func() { j.types[in.LateName] = j.b.lb.RegisterTokenType(in.LateName) })
			main.put(fmt.Sprintf("in%d/late-name", k), fmt.Sprintf("%d %s", j.types[in.LateName], pan))
			j.register(main, fmt.Sprintf("in%d/late-op", k), *in.LateOp)
		}
		if in.LateTok {
			env.Yield(sStep)
			j.lateToks++
			j.addTokIcpt(len(spec.TokIcpts)+j.lateToks-1, IcptSpec{Kind: 1, Every: 1})
		}
		if in.Mode >= 0 {
			env.Yield(sStep)
			j.b.pb.WithTolerantMode(in.Mode&1 != 0).WithSmartSemicolon(in.Mode&2 != 0)
		}
		env.Yield(sStep)
		var p *parser.Parser
		j.curLimit = 2*len(in.Text) + 64
		pan := guard(func() { p = j.b.pb.Build(in.Text) })
		env.Note(evBuildEnd, nil)
		main.put(fmt.Sprintf("in%d/build", k), "built "+pan)
		if p == nil {
			continue
		}
		j.plogOf(p) // created here so that parts only read the table
		j.lexOf[p] = j.curTlog
		// lexers are instances too: a stand-alone lexer from the same (shared) lexer builder reads the input
		// to its end while the other tasks run; what it delivers is part of the job's result
		if in.LexAlone {
			var lh uint64
			n := 0
			pan := guard(func() {
				lx := j.b.lb.Build(in.Text)
				type kept struct {
					t    token.Token
					lit  string
					cmts string
				}
				var keep []kept
				defer func() {
					// tokens own their literal and comments: what was handed out must not change when later tokens are read
					for i, kt := range keep {
						if kt.t.Literal != kt.lit || strings.Join(kt.t.LeadingComments, "\x00") != kt.cmts {
							main.inv("token-changed-after-later-tokens-were-read", fmt.Sprintf("input %d token #%d: was %q comments %q, is now %q comments %q", k, i, kt.lit, kt.cmts, kt.t.Literal, strings.Join(kt.t.LeadingComments, "\x00")))
							break
						}
					}
				}()
				for n < 2*len(in.Text)+8 {
					t := lx.NextToken()
					if len(keep) < 400 {
						keep = append(keep, kept{t, strings.Clone(t.Literal), strings.Clone(strings.Join(t.LeadingComments, "\x00"))})
					}
					lh = mixTok(kernel.Mix(lh, uint64(t.End.Line)<<20^uint64(t.End.Column)), t)
					for _, c := range t.LeadingComments {
						lh = kernel.Mix(lh, kernel.Hash64(fmt.Sprint(c)))
					}
					n++
					if t.Type == token.EOF {
						break
					}
				}
			})
			main.put(fmt.Sprintf("in%d/lex-alone", k), fmt.Sprintf("%d tokens %016x %s", n, lh, pan))
		}
		ps := &sink{full: full}
		partSinks[k] = ps
		waits = append(waits, env.Spawn(fmt.Sprintf("part%d", k), func() { progs[k] = j.part(ps, k, p) }))
	}
	if spec.SecondPB {
		second := func(lb *lexer.Builder, limitOwner *jobRun) string {
			var out string
			pan := guard(func() {
				pb2 := parser.NewBuilder(lb).WithTolerantMode(spec.Tolerant)
				limitOwner.curLimit = 2*len(spec.Inputs[0].Text) + 64
				p2 := pb2.Build(spec.Inputs[0].Text)
				prog, err := p2.ParseProgram()
				out = fmt.Sprintf("err=%v errors=%s\n%s", err != nil, xutil.ErrorsString(p2.Errors()), xutil.Dump(prog))
			})
			return pan + out
		}
		env.Yield(sStep)
		got := second(j.b.lb, j)
		main.put("z-second-parser-builder/parse", got)
		// the same on fresh builders configured the same way, none of which has built anything yet
		t := &jobRun{spec: spec, env: env, cfgs: j.cfgs, twin: true, types: map[string]token.Type{}, modeOverride: -1,
			plogs: map[*parser.Parser]*plog{}, tlogs: map[*lexer.Lexer]*tlog{}, lexOf: map[*parser.Parser]*tlog{}}
		t.setup(&sink{})
		for i := range spec.Inputs {
			if in := &spec.Inputs[i]; in.LateName != "" {
				guard(func() { t.types[in.LateName] = t.b.lb.RegisterTokenType(in.LateName) })
				t.register(&sink{}, "late", *in.LateOp)
			}
		}
		if want := second(t.b.lb, t); want != got {
			main.inv("second-parser-builder-on-a-shared-lexer-builder-differs-from-fresh-builders", fmt.Sprintf("shared: %s\nfresh: %s", clipAroundJ(got, want), clipAroundJ(want, got)))
		}
	}
	env.Yield(sJoin)
	for _, w := range waits {
		w()
	}
	// one long-lived compiler per configuration compiles different trees in a seeded order (shared compilers)
	if len(spec.Shared) > 0 {
		shared := map[int]*compiler.Compiler{}
		for i, pr := range spec.Shared {
			if progs[pr[0]] == nil {
				continue
			}
			env.Yield(sStep)
			cc := shared[pr[1]]
			if cc == nil {
				cc = j.cfgs[pr[1]].New()
				shared[pr[1]] = cc
			}
			j.compile(main, fmt.Sprintf("in%d/compile-shared%02d/%s", pr[0], i, j.cfgs[pr[1]]), progs[pr[0]], j.cfgs[pr[1]], cc)
		}
	}
	// several tasks compile the same trees at once, each with its own compiler - or, in a job out of three, with one
	// configured compiler per configuration that the tasks share (Compile does not reconfigure the compiler)
	var rcShared map[int]*compiler.Compiler
	if spec.SharedRecompile {
		rcShared = map[int]*compiler.Compiler{}
		for _, rc := range spec.Recompiles {
			for _, pr := range rc.Pairs {
				if rcShared[pr[1]] == nil {
					rcShared[pr[1]] = j.cfgs[pr[1]].New()
				}
			}
		}
	}
	rcSinks := make([]*sink, len(spec.Recompiles))
	waits = waits[:0]
	for r := range spec.Recompiles {
		r := r
		rs := &sink{full: full}
		rcSinks[r] = rs
		waits = append(waits, env.Spawn(fmt.Sprintf("recompile%d", r), func() {
			for i, pr := range spec.Recompiles[r].Pairs {
				if progs[pr[0]] == nil {
					continue
				}
				env.Yield(sStep)
				j.compile(rs, fmt.Sprintf("in%d/recompile%d.%d/%s", pr[0], r, i, j.cfgs[pr[1]]), progs[pr[0]], j.cfgs[pr[1]], rcShared[pr[1]])
			}
		}))
	}
	env.Yield(sJoin)
	for _, w := range waits {
		w()
	}
	res := &JobResult{Seed: spec.Seed}
	all := append([]*sink{main}, partSinks...)
	all = append(all, rcSinks...)
	for _, s := range all {
		if s == nil {
			continue
		}
		res.KVs = append(res.KVs, s.kvs...)
		res.Invariants = append(res.Invariants, s.invs...)
		for _, kp := range s.parsers {
			if now := xutil.ErrorsString(kp.p.Errors()); now != kp.errs {
				res.Invariants = append(res.Invariants, fmt.Sprintf("parser-errors-changed-after-sibling-parsers-ran\x00input %d: reported %q when it finished, reports %q at job end", kp.k, kp.errs, now))
			}
		}
		for _, k := range s.kept {
			pan := ""
			if i := strings.Index(k.text, k.res.Code+"\n--map--\n"); i > 0 {
				pan = k.text[:i]
			}
			if now := renderResult(pan, k.res); now != k.text {
				res.Invariants = append(res.Invariants, "earlier-compile-result-changed-by-a-later-compilation\x00"+k.key+": was "+clipAroundJ(k.text, now)+" is now "+clipAroundJ(now, k.text))
			}
		}
	}
	sort.SliceStable(res.KVs, func(a, b int) bool { return res.KVs[a].Key < res.KVs[b].Key })
	// repeated compilation of the same (tree, configuration) — by any task, any compiler, any order — must agree
	first := map[string]KV{}
	for _, kv := range res.KVs {
		if i := strings.Index(kv.Key, "/compile"); i < 0 {
			if i = strings.Index(kv.Key, "/recompile"); i < 0 {
				continue
			}
		}
		parts := strings.Split(kv.Key, "/")
		id := parts[0] + "/" + parts[len(parts)-1]
		if f, ok := first[id]; !ok {
			first[id] = kv
		} else if f.Hash != kv.Hash {
			res.Invariants = append(res.Invariants, "repeated-compilation-differs\x00"+f.Key+" vs "+kv.Key)
		}
	}
	sort.Strings(res.Invariants)
	return res
}

func (j *jobRun) setup(s *sink) {
	spec, env := j.spec, j.env
	lb := lexer.NewBuilder()
	tol, smart := spec.Tolerant, spec.Smart
	if j.modeOverride >= 0 {
		tol, smart = j.modeOverride&1 != 0, j.modeOverride&2 != 0
	}
	pb := parser.NewBuilder(lb).WithTolerantMode(tol).WithSmartSemicolon(smart)
	j.b = builders{lb, pb}
	// guard against loops that keep pulling end of input: deterministic, same in every environment
	lb.UseTokenInterceptor(func(l *lexer.Lexer, next func() token.Token) token.Token {
		t := j.tlogOf(l)
		t.pulls++
		if t.pulls > t.limit {
			panic(pullAbort{})
		}
		return next()
	})
	for i, name := range spec.Names {
		env.Yield(sStep)
		var id token.Type
		pan := guard(func() { id = lb.RegisterTokenType(name) })
		if pan == "" {
			j.types[name] = id
		}
		s.put(fmt.Sprintf("a-reg/name%02d", i), fmt.Sprintf("%s -> %d %s", name, id, pan))
	}
	if len(spec.Names) > 0 {
		// the `typeof` idiom: identifiers that spell a registered word become that token type
		lb.UseTokenInterceptor(func(l *lexer.Lexer, next func() token.Token) token.Token {
			t := next()
			if t.Type == token.IDENT {
				if tt, ok := j.types[t.Literal]; ok {
					t.Type = tt
				}
			}
			return t
		})
	}
	install := func(f func()) {
		if spec.ViaInstall {
			pb.Install(func(*parser.Builder) { f() })
		} else {
			f()
		}
	}
	for i, ic := range spec.TokIcpts {
		i, ic := i, ic
		env.Yield(sStep)
		install(func() { j.addTokIcpt(i, ic) })
	}
	for i, ic := range spec.StmtIcpts {
		i, ic := i, ic
		env.Yield(sStep)
		install(func() {
			pb.UseStatementInterceptor(func(p *parser.Parser, next func() ast.Statement) ast.Statement {
				pl := j.plogOf(p)
				pl.n[i]++
				pl.h = kernel.Mix(pl.h, 0xB0|uint64(i))
				act := pl.n[i]%ic.Every == 0
				if ic.Kind == 1 {
					pl.h = mixTok(kernel.Mix(pl.h, uint64(p.CurrentContext())<<1^b2u(p.IsInFunction())), p.CurrentToken)
					pl.events++
				}
				if ic.Kind == 3 && pl.n[i] == 1 && p.CurrentContext() == parser.GlobalContext && !p.IsInFunction() {
					p.PopContext()
					p.PushContext(parser.FunctionContext)
				}
				if act {
					env.Yield(sStmtPre)
				}
				st := next()
				if act {
					env.Yield(sStmtPost)
				}
				if ic.Kind == 2 && act && !isNilNode(st) {
					return &ProbeStmt{Slot: i, Inner: st, env: env}
				}
				return st
			})
		})
	}
	for i, ic := range spec.ExprIcpts {
		i, ic := i, ic
		env.Yield(sStep)
		install(func() {
			pb.UseExpressionInterceptor(func(p *parser.Parser, next func() ast.Expression) ast.Expression {
				pl := j.plogOf(p)
				pl.n[4+i]++
				pl.h = kernel.Mix(pl.h, 0xC0|uint64(i))
				act := pl.n[4+i]%ic.Every == 0
				if ic.Kind == 1 {
					pl.h = mixTok(kernel.Mix(pl.h, 0x100|uint64(p.CurrentContext())<<1^b2u(p.IsInFunction())), p.CurrentToken)
					pl.events++
				}
				if act {
					env.Yield(sExprPre)
				}
				var x ast.Expression
				if ic.Kind == 3 && act {
					left := p.ParsePrefixExpression()
					x = p.ParseRemainingExpression(left)
				} else {
					x = next()
				}
				if act {
					env.Yield(sExprPost)
				}
				if ic.Kind == 2 && act && !isNilNode(x) {
					return &ProbeExpr{Slot: i, Inner: x, env: env}
				}
				return x
			})
		})
	}
	for i, op := range spec.Ops {
		env.Yield(sStep)
		j.register(s, fmt.Sprintf("a-reg/op%02d", i), op)
	}
}

// addTokIcpt installs the job's i-th token interceptor on its lexer builder (at setup, or later between two builds).
func (j *jobRun) addTokIcpt(i int, ic IcptSpec) {
	env := j.env
	j.b.lb.UseTokenInterceptor(func(l *lexer.Lexer, next func() token.Token) token.Token {
		tl := j.tlogOf(l)
		tl.n[i]++
		tl.h = kernel.Mix(tl.h, 0xA0|uint64(i))
		act := tl.n[i]%ic.Every == 0
		if act {
			env.Yield(sTokPre)
		}
		t := next()
		if ic.Kind == 1 {
			tl.h = mixTok(kernel.Mix(tl.h, uint64(l.Line)<<16^uint64(l.Column)), t)
		}
		if act {
			env.Yield(sTokPost)
		}
		if ic.Kind == 2 && act && len(t.LeadingComments) > 0 {
			t.LeadingComments = append(t.LeadingComments, fmt.Sprintf("// job %x", j.spec.Seed))
		}
		return t
	})
}

func b2u(b bool) uint64 {
	if b {
		return 1
	}
	return 0
}

func isNilNode(n any) bool {
	if n == nil {
		return true
	}
	return xutil.IsNilValue(n)
}

// part: parse one parser and compile its tree under the planned configurations.
func (j *jobRun) part(s *sink, k int, p *parser.Parser) *ast.Program {
	in := &j.spec.Inputs[k]
	env := j.env
	env.Yield(sStep)
	var prog *ast.Program
	var err error
	env.Note(evParseBegin, nil)
	pan := guard(func() { prog, err = p.ParseProgram() })
	env.Note(evParseEnd, nil)
	var errs string
	if pan == "" {
		errs = xutil.ErrorsString(p.Errors())
	}
	es := "<nil>"
	if err != nil {
		es = err.Error()
	}
	parseText := fmt.Sprintf("panic=%q err=%q errors=%s ctx=%d inFunc=%v\n%s", pan, es, errs, p.CurrentContext(), p.IsInFunction(), xutil.Dump(prog))
	s.put(fmt.Sprintf("in%d/parse", k), parseText)
	if pan == "" {
		s.parsers = append(s.parsers, keptParser{k, p, errs})
	}
	obs := ""
	if pl := j.plogs[p]; pl != nil {
		obs = fmt.Sprintf("%d events %016x", pl.events, pl.h)
		s.put(fmt.Sprintf("in%d/parse-observations", k), obs)
	}
	if tl := j.lexOf[p]; tl != nil {
		o := fmt.Sprintf("%d pulls %016x", tl.pulls, tl.h)
		obs += " | " + o
		s.put(fmt.Sprintf("in%d/token-observations", k), o)
	}
	if k >= 1 && !j.twin {
		// "one builder can build many independent parsers": the k-th parser of this builder must behave
		// exactly like the first parser of a fresh builder that was configured the same way
		tText, tObs := j.twinParse(k)
		if tText != parseText {
			s.inv("later-parser-of-a-builder-differs-from-first-parser-of-an-identical-fresh-builder", fmt.Sprintf("input %d, parse result:\n shared builder: %s\n fresh builder:  %s", k, clipAroundJ(parseText, tText), clipAroundJ(tText, parseText)))
		} else if tObs != obs {
			s.inv("later-parser-of-a-builder-differs-from-first-parser-of-an-identical-fresh-builder", fmt.Sprintf("input %d, interceptor observations: shared builder %q, fresh builder %q", k, obs, tObs))
		}
	}
	if pan != "" || prog == nil {
		return nil
	}
	reuse := map[int]*compiler.Compiler{}
	for i, cs := range in.Compiles {
		env.Yield(sStep)
		cfg := j.cfgs[cs.Cfg]
		var cc *compiler.Compiler
		if cs.Reuse {
			cc = reuse[cs.Cfg]
			if cc == nil {
				cc = cfg.New()
				reuse[cs.Cfg] = cc
			}
		}
		j.compile(s, fmt.Sprintf("in%d/compile%02d/%s", k, i, cfg), prog, cfg, cc)
	}
	if len(in.Reconf) > 0 {
		// one compiler, reconfigured between compilations: each result must be what a fresh compiler
		// given only the latest options produces
		mk := func(cc *compiler.Compiler, opts []int) *compiler.Compiler {
			var po []compiler.PrettyPrintOption
			for _, o := range opts {
				switch {
				case o < 0:
					cc = cc.WithSourceMap()
				case o == 0:
					po = append(po, compiler.WithTabs())
				case o <= 9:
					po = append(po, compiler.WithSpaces(o-1))
				case o == 10:
					po = append(po, compiler.WithSemi(true))
				default:
					po = append(po, compiler.WithSemi(false))
				}
			}
			return cc.WithPrettyPrint(po...)
		}
		var cc *compiler.Compiler
		withMap := false
		pan := guard(func() { cc = compiler.New() })
		for i, opts := range in.Reconf {
			if pan != "" {
				break
			}
			env.Yield(sStep)
			if len(opts) > 0 && opts[0] < 0 {
				withMap = true
			}
			var got, want compiler.CompileResult
			p1 := guard(func() { cc = mk(cc, opts); got = cc.Compile(prog) })
			s.put(fmt.Sprintf("in%d/reconf%02d", k, i), renderResult(p1, got))
			fresh := opts
			if withMap && (len(opts) == 0 || opts[0] >= 0) {
				fresh = append([]int{-1}, opts...)
			}
			p2 := guard(func() { want = mk(compiler.New(), fresh).Compile(prog) })
			if p1 == "" && p2 == "" && renderResult("", got) != renderResult("", want) {
				s.inv("reconfigured-compiler-differs-from-fresh-compiler-with-the-same-options", fmt.Sprintf("input %d, reconfiguration %d %v: %s vs fresh %s", k, i, opts, clipAroundJ(renderResult("", got), renderResult("", want)), clipAroundJ(renderResult("", want), renderResult("", got))))
			}
		}
	}
	if in.Debug {
		env.Yield(sStep)
		var ds string
		pan := guard(func() { ds = xdebug.ToString(prog) })
		s.put(fmt.Sprintf("in%d/debug", k), pan+ds)
		// the debug string form of a node equals its compact compilation
		var cc string
		pan2 := guard(func() { cc = compiler.New().Compile(prog).Code })
		if pan == "" && pan2 == "" && ds != cc {
			s.inv("debug-string-differs-from-compact-compilation", fmt.Sprintf("input %d: debug=%q compact=%q", k, clip(ds), clip(cc)))
		}
		for si, st := range prog.Statements {
			if si >= 4 {
				break
			}
			var d1, d2 string
			p1 := guard(func() { d1 = xdebug.ToString(st) })
			p2 := guard(func() { d2 = compiler.New().Compile(&ast.Program{Statements: []ast.Statement{st}}).Code })
			if p1 == "" && p2 == "" && d1 != d2 {
				s.inv("debug-string-differs-from-compact-compilation", fmt.Sprintf("input %d statement %d: debug=%q compact=%q", k, si, clip(d1), clip(d2)))
			}
		}
	}
	return prog
}

func clip(s string) string {
	if len(s) > 300 {
		return s[:300] + "…"
	}
	return s
}

func (j *jobRun) compile(s *sink, key string, prog *ast.Program, cfg xutil.CompilerConfig, cc *compiler.Compiler) {
	before := xutil.Dump(prog)
	if cc == nil {
		cc = cfg.New()
	}
	var res compiler.CompileResult
	j.env.Note(evCompileBegin, prog)
	pan := guard(func() { res = cc.Compile(prog) })
	j.env.Note(evCompileEnd, prog)
	if j.spec.FillSources && res.SourceMap != nil {
		// the host completes the map it was handed: it belongs to the host now
		name := fmt.Sprintf("job-%x.xjs", j.spec.Seed)
		if len(res.SourceMap.Sources) > 0 {
			res.SourceMap.Sources[0] = name
		} else {
			res.SourceMap.Sources = append(res.SourceMap.Sources, name)
		}
		res.SourceMap.File = name + ".js"
	}
	text := renderResult(pan, res)
	s.put(key, text)
	s.kept = append(s.kept, keptResult{key, res, text})
	if after := xutil.Dump(prog); after != before {
		s.inv("compile-modified-tree", key)
	}
	if cfg.SourceMap && pan == "" {
		plainCfg := cfg
		plainCfg.SourceMap = false
		var r2 compiler.CompileResult
		if p2 := guard(func() { r2 = plainCfg.New().Compile(prog) }); p2 == "" && r2.Code != res.Code {
			s.inv("source-map-changes-code", fmt.Sprintf("%s: with map %q, without %q", key, clip(res.Code), clip(r2.Code)))
		}
	}
}

func clipAroundJ(a, b string) string {
	i := 0
	for i < len(a) && i < len(b) && a[i] == b[i] {
		i++
	}
	lo, hi := i-100, i+160
	if lo < 0 {
		lo = 0
	}
	if hi > len(a) {
		hi = len(a)
	}
	return fmt.Sprintf("…%s… (first difference at byte %d)", a[lo:hi], i)
}

// twinParse: a fresh pair of builders receives the registration history the job's builders had
// when input k was built; its first parser parses input k.
func (j *jobRun) twinParse(k int) (parseText, obs string) {
	t := &jobRun{spec: j.spec, env: j.env, cfgs: j.cfgs, twin: true, types: map[string]token.Type{}, modeOverride: -1,
		plogs: map[*parser.Parser]*plog{}, tlogs: map[*lexer.Lexer]*tlog{}, lexOf: map[*parser.Parser]*tlog{}}
	// the fresh builder is given the modes in force at Build k directly, at creation, not the history of
	// switches: a switch that does not take effect (or sticks) on the reused builder then shows as a difference
	for i := 1; i <= k; i++ {
		if m := j.spec.Inputs[i].Mode; m >= 0 {
			t.modeOverride = m
		}
	}
	scratch := &sink{}
	t.setup(scratch)
	for i := 1; i <= k; i++ {
		if j.spec.Inputs[i].LateTok {
			t.lateToks++
			t.addTokIcpt(len(j.spec.TokIcpts)+t.lateToks-1, IcptSpec{Kind: 1, Every: 1})
		}
		if in := &j.spec.Inputs[i]; in.LateName != "" {
			guard(func() { t.types[in.LateName] = t.b.lb.RegisterTokenType(in.LateName) })
			t.register(scratch, "late", *in.LateOp)
		}
	}
	text := j.spec.Inputs[k].Text
	t.curLimit = 2*len(text) + 64
	var p *parser.Parser
	if pan := guard(func() { p = t.b.pb.Build(text) }); p == nil {
		return "build failed: " + pan, ""
	}
	t.plogOf(p)
	t.lexOf[p] = t.curTlog
	var prog *ast.Program
	var err error
	pan := guard(func() { prog, err = p.ParseProgram() })
	var errs string
	if pan == "" {
		errs = xutil.ErrorsString(p.Errors())
	}
	es := "<nil>"
	if err != nil {
		es = err.Error()
	}
	parseText = fmt.Sprintf("panic=%q err=%q errors=%s ctx=%d inFunc=%v\n%s", pan, es, errs, p.CurrentContext(), p.IsInFunction(), xutil.Dump(prog))
	if pl := t.plogs[p]; pl != nil {
		obs = fmt.Sprintf("%d events %016x", pl.events, pl.h)
	}
	if tl := t.lexOf[p]; tl != nil {
		obs += " | " + fmt.Sprintf("%d pulls %016x", tl.pulls, tl.h)
	}
	return parseText, obs
}
