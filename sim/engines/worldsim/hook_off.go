//go:build !verif

package worldsim
