package worldsim

import (
	"bytes"
	"context"
	"encoding/json"
	"fmt"
	"os"
	"os/exec"
	"path/filepath"
	"regexp"
	"runtime"
	"strconv"
	"strings"
	"sync"
	"sync/atomic"
	"time"

	"verifsim/kernel"
)

// The parallel leg is SUPPLEMENTARY and is runtime monitoring, not simulation:
// the same jobs run free on 16 real goroutines in a -race build. A data race
// that is benign in every serialised interleaving (a memoising package-level
// map, say) is invisible to a cooperative scheduler by construction — the
// baton hand-off orders everything — so the property's "race detector on"
// clause is covered here. It is not exactly replayable; the Go race detector
// reports only real races, so it cannot alarm on a tree where the property holds.

// parEnv: jobs run whole on their goroutine; the parts of a job (parsers of one
// builder, compilations of one tree) run on goroutines of their own once the
// job's builder is no longer being modified.
type parEnv struct {
	pending []func()
	n       atomic.Int64
}

func (p *parEnv) Yield(int) {
	if p.n.Add(1)%7 == 0 {
		runtime.Gosched()
	}
}
func (p *parEnv) Note(int, any) {}
func (p *parEnv) Spawn(_ string, fn func()) func() {
	p.pending = append(p.pending, fn)
	return func() {
		fns := p.pending
		p.pending = nil
		var wg sync.WaitGroup
		for _, f := range fns {
			wg.Add(1)
			go func(f func()) { defer wg.Done(); f() }(f)
		}
		wg.Wait()
	}
}

type parReport struct {
	Jobs       int      `json:"jobs"`
	Rounds     int      `json:"rounds"`
	JobRuns    int64    `json:"job_runs"`
	Goroutines int      `json:"goroutines"`
	Excluded   int      `json:"jobs_excluded_solo_failed"`
	Mismatches []string `json:"mismatches"`
	WallS      float64  `json:"wall_s"`
}

// ParallelMain is the `verifsim parallel <seed> <tier> <seconds>` command (meant for the -race build).
func ParallelMain(args []string) {
	if len(args) < 3 {
		os.Exit(2)
	}
	seed, _ := strconv.ParseInt(args[0], 10, 64)
	tier := args[1]
	secs, _ := strconv.Atoi(args[2])
	exe, _ := os.Executable()
	nJobs := 48
	if tier == "thorough" {
		nJobs = 400
	}
	rng := kernel.NewRNG(kernel.RunSeed(seed, "C14", "parallel-leg", 0))
	seeds := make([]uint64, nJobs)
	for i := range seeds {
		seeds[i] = 1 + rng.Next()%100000
	}
	// solo references from fresh child processes of this same binary
	refs := make([]*JobResult, nJobs)
	var wg sync.WaitGroup
	sem := make(chan struct{}, 16)
	for i, s := range seeds {
		wg.Add(1)
		go func(i int, s uint64) {
			defer wg.Done()
			sem <- struct{}{}
			defer func() { <-sem }()
			r, err := runSoloChild(exe, s, false)
			if err != nil {
				fmt.Fprintln(os.Stderr, "parallel: ", err)
				os.Exit(2)
			}
			refs[i] = r
		}(i, s)
	}
	wg.Wait()
	rep := &parReport{Jobs: nJobs, Goroutines: 16}
	var live []int
	specs := make([]*JobSpec, nJobs)
	for i, r := range refs {
		if r.Failed != "" {
			rep.Excluded++
			continue
		}
		live = append(live, i)
		specs[i] = GenJob(seeds[i])
	}
	start := time.Now()
	deadline := start.Add(time.Duration(secs) * time.Second)
	var mu sync.Mutex
	// at least minRounds rounds even on a loaded machine (bounded by hardStop): what the race detector can
	// see depends on the two accesses actually being executed by different goroutines
	minRounds := 24
	hardStop := start.Add(time.Duration(secs*10+30) * time.Second)
	for (time.Now().Before(deadline) || (rep.Rounds < minRounds && time.Now().Before(hardStop))) && len(rep.Mismatches) == 0 && len(live) > 0 {
		rep.Rounds++
		// each goroutine gets its own seeded slice of jobs; all start together
		startCh := make(chan struct{})
		var rw sync.WaitGroup
		for g := 0; g < 16; g++ {
			var mine []int
			for k := 0; k < 6; k++ {
				mine = append(mine, live[int(rng.Next()%uint64(len(live)))])
			}
			rw.Add(1)
			go func(mine []int) {
				defer rw.Done()
				<-startCh
				for _, i := range mine {
					got := RunJob(specs[i], &parEnv{}, false)
					if k := diffResults(refs[i], got); k != "" {
						mu.Lock()
						rep.Mismatches = append(rep.Mismatches, fmt.Sprintf("job %d differs from its solo run at %q while 16 goroutines were running jobs", seeds[i], k))
						mu.Unlock()
					}
					mu.Lock()
					rep.JobRuns++
					mu.Unlock()
				}
			}(mine)
		}
		close(startCh)
		rw.Wait()
	}
	rep.WallS = time.Since(start).Seconds()
	b, _ := json.Marshal(rep)
	os.Stdout.Write(b)
}

var raceFrame = regexp.MustCompile(`github\.com/xjslang/xjs/[\w./()*]+`)

func parallelLeg(ctx *kernel.BatchContext) []kernel.Violation {
	info := map[string]any{"what": "supplementary runtime-monitoring leg (not simulation): same job generator, 16 real goroutines, -race build, results compared with solo child processes"}
	ctx.ExtraInfo["parallel_leg"] = info
	if os.Getenv("VERIF_C14_NO_PARALLEL") == "1" {
		info["skipped"] = "VERIF_C14_NO_PARALLEL=1"
		return nil
	}
	raceBin := filepath.Join(ctx.BuildDir, fmt.Sprintf("verifsim-race.%d", os.Getpid()))
	defer os.Remove(raceBin)
	bargs := []string{"build", "-race", "-tags", "verif"}
	if mf := os.Getenv("VERIF_MODFILE"); mf != "" {
		bargs = append(bargs, "-modfile="+mf)
	}
	build := exec.Command("go", append(bargs, "-o", raceBin, "./cmd/verifsim")...)
	build.Dir = filepath.Join(ctx.VerifDir, "sim")
	if out, err := build.CombinedOutput(); err != nil {
		ctx.Infra = append(ctx.Infra, "parallel leg: cannot build the -race binary: "+err.Error()+"\n"+tailStr(string(out), 2000))
		info["skipped"] = "race build failed"
		return nil
	}
	secs := 8
	if ctx.Tier == "thorough" {
		secs = 240
	}
	if v, err := strconv.Atoi(os.Getenv("VERIF_C14_PARALLEL_SECS")); err == nil && v > 0 {
		secs = v
	}
	c, cancel := context.WithTimeout(context.Background(), time.Duration(secs*10+240)*time.Second)
	defer cancel()
	cmd := exec.CommandContext(c, raceBin, "parallel", strconv.FormatInt(ctx.Seed, 10), ctx.Tier, strconv.Itoa(secs))
	cmd.Env = append(os.Environ(), "GORACE=halt_on_error=1 exitcode=66")
	var out, errb bytes.Buffer
	cmd.Stdout, cmd.Stderr = &out, &errb
	err := cmd.Run()
	stderr := errb.String()
	var viols []kernel.Violation
	switch {
	case strings.Contains(stderr, "WARNING: DATA RACE"):
		// a race counts only if one of the two conflicting accesses is made by xjs code itself
		// (first non-runtime frame of an access stack inside github.com/xjslang/xjs, the simhook shim excepted)
		frames := racingXjsFrames(stderr)
		if len(frames) == 0 {
			ctx.Infra = append(ctx.Infra, "parallel leg: data race reported between harness accesses, not in xjs:\n"+tailStr(stderr, 3000))
			return nil
		}
		viols = append(viols, kernel.Violation{Property: "C14", Kind: "data-race", Signature: "data-race|" + frames[0],
			Detail: "Go race detector, 16 goroutines running independent jobs:\n" + firstN(stderr, 6000)})
	case strings.Contains(stderr, "fatal error: concurrent map"):
		line := stderr[strings.Index(stderr, "fatal error:"):]
		// the crashing goroutine is printed first: its first non-runtime frame must be xjs code
		crash := ""
		for _, ln := range strings.Split(line, "\n")[1:] {
			f := strings.TrimSpace(ln)
			if f == "" || strings.HasPrefix(f, "goroutine ") || strings.HasPrefix(f, "/") || strings.HasPrefix(f, "runtime.") || strings.HasPrefix(f, "internal/") {
				continue
			}
			crash = f
			break
		}
		if !strings.HasPrefix(crash, "github.com/xjslang/xjs/") || strings.HasPrefix(crash, "github.com/xjslang/xjs/simhook.") {
			ctx.Infra = append(ctx.Infra, "parallel leg: runtime crash whose faulting frame is harness code ("+crash+"):\n"+tailStr(stderr, 3000))
			return nil
		}
		if i := strings.IndexByte(line, '\n'); i > 0 {
			line = line[:i]
		}
		line += " in " + raceFrame.FindString(crash)
		viols = append(viols, kernel.Violation{Property: "C14", Kind: "data-race", Signature: "data-race|" + line,
			Detail: "runtime crash with 16 goroutines running independent jobs:\n" + firstN(stderr, 6000)})
	case c.Err() != nil:
		viols = append(viols, kernel.Violation{Property: "C14", Kind: "no-progress", Signature: "parallel|no-progress",
			Detail: "jobs that terminate alone did not terminate when run on 16 goroutines within the time limit"})
	case err != nil:
		ctx.Infra = append(ctx.Infra, "parallel leg failed: "+err.Error()+"\n"+tailStr(stderr, 3000))
		return nil
	}
	rep := &parReport{}
	if json.Unmarshal(out.Bytes(), rep) == nil {
		info["jobs"], info["rounds"], info["job_runs"], info["goroutines"], info["wall_s"] = rep.Jobs, rep.Rounds, rep.JobRuns, rep.Goroutines, rep.WallS
		info["jobs_excluded_solo_failed"] = rep.Excluded
		for _, m := range rep.Mismatches {
			viols = append(viols, kernel.Violation{Property: "C14", Kind: "isolation", Signature: "parallel|result-differs", Detail: m})
			break
		}
	}
	info["race_reports"] = len(viols)
	return viols
}

func firstN(s string, n int) string {
	if len(s) > n {
		return s[:n] + "…"
	}
	return s
}

var accessHeader = regexp.MustCompile(`^(Read|Write|Previous read|Previous write|Atomic read|Atomic write|Previous atomic read|Previous atomic write) at 0x`)

// racingXjsFrames returns, for every access stack of a race report, the accessing function when it belongs to xjs.
func racingXjsFrames(report string) []string {
	var out []string
	lines := strings.Split(report, "\n")
	for i := 0; i < len(lines); i++ {
		if !accessHeader.MatchString(strings.TrimSpace(lines[i])) {
			continue
		}
		for j := i + 1; j < len(lines); j++ {
			f := strings.TrimSpace(lines[j])
			if f == "" {
				break
			}
			if strings.HasPrefix(f, "/") || strings.HasPrefix(f, "runtime.") || strings.HasPrefix(f, "sync/atomic.") || strings.HasPrefix(f, "sync.") {
				continue // file:line lines and runtime frames
			}
			if strings.HasPrefix(f, "github.com/xjslang/xjs/") && !strings.HasPrefix(f, "github.com/xjslang/xjs/simhook.") {
				out = append(out, raceFrame.FindString(f))
			}
			break
		}
	}
	return out
}
