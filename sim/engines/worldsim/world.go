package worldsim

import (
	"fmt"
	"sort"
	"strings"

	"github.com/xjslang/xjs/ast"
	"github.com/xjslang/xjs/token"

	"verifsim/kernel"
)

// ---- tasks and the cooperative scheduler -------------------------------------------

type task struct {
	id      int
	job     int
	name    string
	resume  chan struct{}
	done    bool
	waitFor *task
	prio    int
	site    int
	inParse bool
	inComp  bool
}

func (t *task) runnable() bool { return !t.done && (t.waitFor == nil || t.waitFor.done) }

const (
	stratSequential = iota
	stratRandom
	stratPCT
	stratRoundRobin
	nStrategies
)

var stratNames = [nStrategies]string{"sequential", "random", "pct", "round-robin"}

// World is one simulated process. Exactly one task runs at any instant: tasks
// are real goroutines parked on their resume channel; the running task itself
// executes the scheduling decision (drawing from the chooser) and hands the
// baton to the next one, so the Go runtime never chooses who runs.
type World struct {
	ch       *kernel.Chooser
	st       *kernel.Stats
	tasks    []*task
	cur      *task
	fin      chan struct{}
	strategy int
	den      int // random: mean gap between switches
	gap      int
	quantum  int
	qleft    int
	change   map[int64]bool // pct: steps at which the running task drops to the lowest priority
	lowPrio  int
	dirty    bool // pct: a task was created, finished or unblocked since the last scheduling decision
	maxTasks int
	spawnNum int // probability numerator (/4) that a part becomes its own task

	steps     int64
	switches  int64
	fp        uint64
	compiling map[*ast.Program]int
	nParse    int
	nCompile  int
	kwSnap    []string
	kwBroken  string
	sites     [nSites]int64
}

func snapshotKeywords() []string {
	var out []string
	for k, v := range token.Keywords {
		out = append(out, fmt.Sprintf("%s=%d", k, v))
	}
	sort.Strings(out)
	return out
}

func (w *World) checkKeywords() {
	if w.kwBroken != "" {
		return
	}
	if len(token.Keywords) != len(w.kwSnap) {
		w.kwBroken = fmt.Sprintf("token.Keywords has %d entries, had %d at process start", len(token.Keywords), len(w.kwSnap))
		return
	}
	for _, kv := range w.kwSnap {
		i := strings.LastIndexByte(kv, '=')
		if v, ok := token.Keywords[kv[:i]]; !ok || fmt.Sprintf("%d", v) != kv[i+1:] {
			w.kwBroken = fmt.Sprintf("token.Keywords[%q] changed (was %s)", kv[:i], kv[i+1:])
			return
		}
	}
}

func (w *World) newTask(job int, name string, fn func()) *task {
	t := &task{id: len(w.tasks), job: job, name: name, resume: make(chan struct{}, 1)}
	if w.strategy == stratPCT {
		t.prio = 1000 + w.ch.Choose(1000)
	}
	w.tasks = append(w.tasks, t)
	w.dirty = true
	go func() {
		<-t.resume
		fn()
		w.finish(t)
	}()
	return t
}

func (w *World) runnableOthers(cur *task) []*task {
	var out []*task
	for _, t := range w.tasks {
		if t != cur && t.runnable() {
			out = append(out, t)
		}
	}
	return out
}

// pickOther chooses among runnable tasks other than cur (cur is done, blocked, or to be preempted).
func (w *World) pickOther(cur *task) *task {
	others := w.runnableOthers(cur)
	if len(others) == 0 {
		return nil
	}
	switch w.strategy {
	case stratPCT:
		best := others[0]
		for _, t := range others[1:] {
			if t.prio > best.prio {
				best = t
			}
		}
		return best
	case stratRoundRobin:
		for _, t := range others {
			if t.id > cur.id {
				return t
			}
		}
		return others[0]
	}
	return others[w.ch.Choose(len(others))]
}

func (w *World) switchTo(next *task, site int) {
	w.switches++
	w.fp = kernel.Mix(w.fp, uint64(next.id)<<8|uint64(site))
	w.checkKeywords()
	w.cur = next
	next.resume <- struct{}{}
}

// yield is called by the running task at a yield point.
func (w *World) yield(site int) {
	w.steps++
	w.sites[site]++
	t := w.cur
	var next *task
	switch w.strategy {
	case stratSequential:
		return
	case stratRandom:
		w.gap--
		if w.gap > 0 {
			return
		}
		w.gap = 1 + w.ch.Choose(2*w.den)
		next = w.pickOther(t)
	case stratPCT:
		// the running task is the highest-priority runnable one unless a change point demotes it now
		// or the task set changed since the last decision
		if w.change[w.steps] {
			w.lowPrio--
			t.prio = w.lowPrio
		} else if !w.dirty {
			return
		}
		w.dirty = false
		next = w.pickOther(t)
		if next != nil && next.prio < t.prio {
			next = nil
		}
	case stratRoundRobin:
		w.qleft--
		if w.qleft > 0 {
			return
		}
		w.qleft = w.quantum
		next = w.pickOther(t)
	}
	if next == nil {
		return
	}
	t.site = site
	if t.inParse {
		w.st.Inc("probe.switch_while_inside_ParseProgram")
	}
	if t.inComp {
		w.st.Inc("probe.switch_while_inside_Compile")
	}
	w.switchTo(next, site)
	<-t.resume
}

// block parks the running task until other is done.
func (w *World) block(other *task) {
	t := w.cur
	for !other.done {
		t.waitFor = other
		next := w.pickOther(t)
		if next == nil {
			panic("worldsim: deadlock in the harness (no runnable task while joining)")
		}
		w.switchTo(next, sJoin)
		<-t.resume
		t.waitFor = nil
	}
}

func (w *World) finish(t *task) {
	t.done = true
	w.dirty = true
	next := w.pickOther(t)
	if next == nil {
		for _, x := range w.tasks {
			if !x.done {
				panic("worldsim: deadlock in the harness (tasks left but none runnable)")
			}
		}
		w.checkKeywords()
		w.fin <- struct{}{}
		return
	}
	w.switchTo(next, sStep)
}

func (w *World) run() {
	if len(w.tasks) == 0 {
		return
	}
	first := w.tasks[0]
	if w.strategy != stratRoundRobin {
		if f := w.pickOther(&task{id: -1}); f != nil {
			first = f
		}
	}
	w.cur = first
	first.resume <- struct{}{}
	<-w.fin
}

// ---- the job's view ----------------------------------------------------------------------

type jobEnv struct {
	w   *World
	job int
}

func (e *jobEnv) Yield(site int) { e.w.yield(site) }

func (e *jobEnv) Spawn(name string, fn func()) func() {
	w := e.w
	if len(w.tasks) >= w.maxTasks || !w.ch.Bool(w.spawnNum, 4) {
		fn()
		return func() {}
	}
	w.st.Inc("probe.part_run_as_own_task")
	t := w.newTask(e.job, name, fn)
	return func() { w.block(t) }
}

func (e *jobEnv) Note(ev int, obj any) {
	w := e.w
	t := w.cur
	switch ev {
	case evParseBegin:
		t.inParse = true
		w.nParse++
		if w.nParse >= 2 {
			w.st.Inc("probe.two_parsers_mid_parse_at_once")
		}
	case evParseEnd:
		t.inParse = false
		w.nParse--
	case evBuildEnd:
		if w.nParse > 0 {
			w.st.Inc("fault.build_completed_while_another_task_is_parked_inside_ParseProgram")
		}
	case evCompileBegin:
		t.inComp = true
		w.nCompile++
		if p, ok := obj.(*ast.Program); ok {
			w.compiling[p]++
			if w.compiling[p] >= 2 {
				w.st.Inc("fault.two_tasks_compiling_the_same_tree")
			}
		}
	case evCompileEnd:
		t.inComp = false
		w.nCompile--
		if w.nCompile > 0 {
			w.st.Inc("fault.compile_completed_while_another_task_is_parked_inside_Compile")
		}
		if p, ok := obj.(*ast.Program); ok {
			w.compiling[p]--
		}
	}
}
