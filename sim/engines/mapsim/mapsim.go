// Package mapsim decides C09: a simulated client drives one real
// sourcemap.SourceMapper with a seeded operation history (records, advances,
// snapshots at arbitrary points) and checks every snapshot against a reference
// model through an independent Source Map v3 decoder.
package mapsim

import (
	"encoding/json"
	"fmt"
	"runtime/debug"
	"strings"

	gsm "github.com/go-sourcemap/sourcemap"
	"github.com/xjslang/xjs/ast"
	"github.com/xjslang/xjs/compiler"
	"github.com/xjslang/xjs/lexer"
	"github.com/xjslang/xjs/parser"
	"github.com/xjslang/xjs/sourcemap"
	"github.com/xjslang/xjs/token"

	"verifsim/kernel"
	"verifsim/xutil"
)

// ---- independent decoder, written from the Source Map v3 text ---------------

type Seg struct {
	GenLine, GenCol int
	SrcIdx          int
	SrcLine, SrcCol int
	HasName         bool
	Name            int
}

const b64 = "ABCDEFGHIJKLMNOPQRSTUVWXYZabcdefghijklmnopqrstuvwxyz0123456789+/"

func b64val(c byte) int {
	switch {
	case c >= 'A' && c <= 'Z':
		return int(c - 'A')
	case c >= 'a' && c <= 'z':
		return int(c-'a') + 26
	case c >= '0' && c <= '9':
		return int(c-'0') + 52
	case c == '+':
		return 62
	case c == '/':
		return 63
	}
	return -1
}

// decodeVLQ reads one value starting at s[i]; returns value, next index.
func decodeVLQ(s string, i int) (int64, int, error) {
	var acc uint64
	shift := uint(0)
	for {
		if i >= len(s) {
			return 0, i, fmt.Errorf("VLQ runs off the end of the segment")
		}
		d := b64val(s[i])
		if d < 0 {
			return 0, i, fmt.Errorf("byte %q is not a Base64 digit", s[i])
		}
		i++
		acc |= uint64(d&31) << shift
		shift += 5
		if d&32 == 0 {
			break
		}
		if shift > 60 {
			return 0, i, fmt.Errorf("VLQ too long")
		}
	}
	v := int64(acc >> 1)
	if acc&1 == 1 {
		v = -v
	}
	return v, i, nil
}

// Decode turns a mappings string into absolute segments.
func Decode(mappings string) ([]Seg, error) {
	var out []Seg
	genLine := 0
	srcIdx, srcLine, srcCol, name := 0, 0, 0, 0
	if mappings == "" {
		return nil, nil
	}
	for _, line := range strings.Split(mappings, ";") {
		genCol := 0
		if line != "" {
			for _, seg := range strings.Split(line, ",") {
				if seg == "" {
					return nil, fmt.Errorf("empty segment on generated line %d", genLine)
				}
				var f []int64
				for i := 0; i < len(seg); {
					v, ni, err := decodeVLQ(seg, i)
					if err != nil {
						return nil, fmt.Errorf("generated line %d segment %q: %v", genLine, seg, err)
					}
					f = append(f, v)
					i = ni
				}
				if len(f) != 1 && len(f) != 4 && len(f) != 5 {
					return nil, fmt.Errorf("generated line %d segment %q has %d fields", genLine, seg, len(f))
				}
				genCol += int(f[0])
				s := Seg{GenLine: genLine, GenCol: genCol, SrcIdx: -1}
				if len(f) >= 4 {
					srcIdx += int(f[1])
					srcLine += int(f[2])
					srcCol += int(f[3])
					s.SrcIdx, s.SrcLine, s.SrcCol = srcIdx, srcLine, srcCol
				}
				if len(f) == 5 {
					name += int(f[4])
					s.HasName, s.Name = true, name
				}
				out = append(out, s)
			}
		}
		genLine++
	}
	return out, nil
}

// ---- reference model ---------------------------------------------------------

type model struct {
	line, col int
	segs      []Seg
	names     []string
	nameIdx   map[string]int
}

func newModel() *model { return &model{nameIdx: map[string]int{}} }

func (m *model) advanceString(s string) {
	for i := 0; i < len(s); i++ {
		switch s[i] {
		case '\n':
			m.line++
			m.col = 0
		case '\r':
			if i+1 < len(s) && s[i+1] == '\n' {
				i++
			}
			m.line++
			m.col = 0
		default:
			m.col++ // columns count bytes of the advanced string (UTF-8 bytes), as AdvanceColumn(n) counts units
		}
	}
}

// ---- operations ---------------------------------------------------------------

type Op struct {
	Kind string `json:"op"`
	A    int    `json:"a,omitempty"`
	B    int    `json:"b,omitempty"`
	S    string `json:"s,omitempty"`
}

var namePool = []string{"a", "b", "x", "", "foo", "toString", "ünï", "a b", "\"q\"",
	// names are byte strings to the mapper: not valid UTF-8, distinct from one another and from U+FFFD
	"\xff", "\xfe", "a\x80", "\ufffd", "\xc3", "\x00"}
var strPieces = []string{"a", "ab", " ", "\n", "\r", "\r\n", "é", "日本", "x\ny", "\n\n", "\r\r", "a\r\nb", "\t", ";", "\r\n\r\n", "z\r",
	// characters other tools treat as line terminators or that merely look like them: to the mapper they are columns
	"\u2028", "a\u2029b", "\u0085", "\v", "\f", "\x00", "\xe2\x80", "\u2028\n"}

type Engine struct{}

func New(tier string) kernel.Engine { return &Engine{} }
func (e *Engine) Name() string      { return "mapsim" }
func (e *Engine) Close()            {}

func srcPos(ch *kernel.Chooser, prev int) int {
	switch ch.Weighted(6, 3, 2, 1, 1) {
	case 0:
		return ch.Choose(40)
	case 1: // near previous, may decrease
		v := prev + ch.Choose(9) - 4
		if v < 0 {
			v = 0
		}
		return v
	case 2: // multi-digit VLQ
		return ch.Choose(1 << 16)
	case 3:
		return ch.Choose(1 << 30)
	default:
		return (1 << 31) - 1 - ch.Choose(4)
	}
}

var tinyPrograms = []string{
	"let a = 1",
	"function f(x, y) {\n  return x + y\n}\nf(1, 2)",
	"let name = obj.prop[idx]\nname = name + 1",
	"if (a) {\n  b(c)\n} else {\n  d = e\n}",
	"for (let i = 0; i < n; i++) {\n  total += i\n}",
	"let s = `multi\nline`\nlet t = 'x'",
	"while (k) { k-- }",
	"let o = {p: 1, q: [2, 3]}",
}

// compilerClient: the mapper's other client is the compiler. One compiler with a source map compiles
// several programs in a seeded order; every map must decode to exactly what a fresh compiler records
// for that program (a map is the record of ONE compilation).
func (e *Engine) compilerClient(ch *kernel.Chooser, st *kernel.Stats) (res kernel.RunResult) {
	st.Inc("client.compiler")
	pretty := ch.Bool(1, 2)
	mk := func() *compiler.Compiler {
		c := compiler.New()
		if pretty {
			c = c.WithPrettyPrint()
		}
		return c.WithSourceMap()
	}
	shared := mk()
	n := 2 + ch.Choose(4)
	res = kernel.RunResult{Evals: int64(n), Steps: int64(n), Nontrivial: true}
	var order []int
	var held []heldMap
	defer func() {
		if len(res.Violations) > 0 {
			return
		}
		for _, h := range held {
			if d := h.changed(); d != "" {
				res.Violations = append(res.Violations, kernel.Violation{Property: "C09", Kind: "client", Signature: "compiler-client|held-map-changed",
					Detail:       fmt.Sprintf("the map of compilation #%d of this compiler was verified when it was returned and reads differently after later compilations: %s", h.at, d),
					Materialised: map[string]any{"programs_in_order": order, "pretty": pretty}})
				return
			}
		}
	}()
	for i := 0; i < n; i++ {
		k := ch.Choose(len(tinyPrograms))
		order = append(order, k)
		p := parser.NewBuilder(lexer.NewBuilder()).Build(tinyPrograms[k])
		prog, err := p.ParseProgram()
		if err != nil {
			continue
		}
		got := shared.Compile(prog).SourceMap
		want := mk().Compile(prog).SourceMap
		res.Fingerprint = kernel.Mix(res.Fingerprint, uint64(k)+1)
		if got == nil || want == nil {
			continue
		}
		problem := ""
		gs, gerr := Decode(got.Mappings)
		ws, werr := Decode(want.Mappings)
		switch {
		case got.Version != 3:
			problem = fmt.Sprintf("version = %d", got.Version)
		case gerr != nil:
			problem = fmt.Sprintf("mappings %q does not decode: %v", got.Mappings, gerr)
		case werr != nil:
			problem = ""
		case fmt.Sprint(gs) != fmt.Sprint(ws) || fmt.Sprint(got.Names) != fmt.Sprint(want.Names):
			problem = fmt.Sprintf("compilation #%d of this compiler (program %q) gave mappings %q names %q; a fresh compiler records %q names %q", i+1, tinyPrograms[k], got.Mappings, got.Names, want.Mappings, want.Names)
		}
		if problem == "" {
			held = append(held, heldMap{sm: got, version: got.Version, mappings: got.Mappings, names: append([]string(nil), got.Names...), at: i + 1})
		}
		if problem != "" {
			res.Violations = append(res.Violations, kernel.Violation{Property: "C09", Kind: "client", Signature: "compiler-client|map-is-not-the-record-of-this-compilation",
				Detail: problem, Materialised: map[string]any{"programs_in_order": order, "pretty": pretty}})
			break
		}
	}
	return res
}

func (e *Engine) Run(prop string, ch *kernel.Chooser, st *kernel.Stats) (rr kernel.RunResult) {
	defer func() {
		// the mapper (or the code writer / compiler driving it) panicked: no map was produced for this history
		if r := recover(); r != nil {
			rr.Violations = append(rr.Violations, kernel.Violation{Property: "C09", Kind: "panic", Signature: "panic|" + xutil.TopFrames(string(debug.Stack()), 2),
				Detail: fmt.Sprintf("panic while driving the mapper: %v\n%s", r, xutil.TopFrames(string(debug.Stack()), 6))})
			rr.Evals = 1
		}
	}()
	if ch.Bool(1, 16) {
		return e.compilerClient(ch, st)
	}
	nOps := 1 + ch.Choose(40)
	if ch.Bool(1, 10) {
		nOps += ch.Choose(160)
	}
	real := sourcemap.New()
	// the client is either the harness calling the mapper directly, or the library's own client: a real
	// ast.CodeWriter (compact mode) that owns the mapper and is driven through its writing API
	var cw *ast.CodeWriter
	if ch.Bool(1, 4) {
		cw = &ast.CodeWriter{Mapper: real}
		st.Inc("client.code_writer")
	} else {
		st.Inc("client.direct")
	}
	var written strings.Builder
	m := newModel()
	var ops []Op
	var viol []kernel.Violation
	lastEndedCR := false
	prevLine, prevCol := 0, 0
	snapshots := 0
	fp := uint64(1469598103934665603)
	report := func(kind, sig, detail string) {
		if len(viol) == 0 {
			viol = append(viol, kernel.Violation{Property: "C09", Kind: kind, Signature: sig, Detail: detail,
				Materialised: map[string]any{"history": append([]Op(nil), ops...)}})
		}
	}
	// every map handed out (and verified) so far; it is the record of the history up to that point and
	// must still say the same when the history has gone on
	var held []heldMap
	check := func(final bool) {
		snapshots++
		sm := real.SourceMap()
		if sm == nil {
			report("snapshot", "nil-sourcemap", "SourceMap() returned nil")
			return
		}
		if sm.Version != 3 {
			report("version", "version", fmt.Sprintf("version = %d, want 3", sm.Version))
			return
		}
		got, err := Decode(sm.Mappings)
		if err != nil {
			report("decode", "undecodable", fmt.Sprintf("mappings %q does not decode: %v", sm.Mappings, err))
			return
		}
		if len(got) != len(m.segs) {
			report("segments", "segment-count", fmt.Sprintf("decoded %d segments, recorded %d; mappings=%q", len(got), len(m.segs), sm.Mappings))
			return
		}
		for i := range got {
			w := m.segs[i]
			g := got[i]
			if g.SrcIdx == -1 {
				report("segments", "one-field-segment", fmt.Sprintf("segment %d has 1 field but every recorded mapping has a source position", i))
				return
			}
			if g.GenLine != w.GenLine || g.GenCol != w.GenCol {
				report("segments", "generated-position", fmt.Sprintf("segment %d decodes to generated %d:%d, recorded %d:%d; mappings=%q", i, g.GenLine, g.GenCol, w.GenLine, w.GenCol, sm.Mappings))
				return
			}
			if g.SrcIdx != 0 {
				report("segments", "source-index", fmt.Sprintf("segment %d decodes to source index %d, want 0", i, g.SrcIdx))
				return
			}
			if g.SrcLine != w.SrcLine || g.SrcCol != w.SrcCol {
				report("segments", "source-position", fmt.Sprintf("segment %d decodes to source %d:%d, recorded %d:%d; mappings=%q", i, g.SrcLine, g.SrcCol, w.SrcLine, w.SrcCol, sm.Mappings))
				return
			}
			if g.HasName != w.HasName {
				report("segments", "name-flag", fmt.Sprintf("segment %d has-name=%v, recorded %v; mappings=%q", i, g.HasName, w.HasName, sm.Mappings))
				return
			}
			if g.HasName && g.Name != w.Name {
				report("segments", "name-index", fmt.Sprintf("segment %d decodes to name index %d, recorded %d (%q); mappings=%q names=%q", i, g.Name, w.Name, m.names[w.Name], sm.Mappings, sm.Names))
				return
			}
		}
		if len(sm.Names) != len(m.names) {
			report("names", "names-table", fmt.Sprintf("names = %q, want %q", sm.Names, m.names))
			return
		}
		for i := range m.names {
			if sm.Names[i] != m.names[i] {
				report("names", "names-table", fmt.Sprintf("names = %q, want %q (first-seen order)", sm.Names, m.names))
				return
			}
		}
		// cross-check of the harness decoder itself against go-sourcemap (guards the oracle, not xjs)
		if final && len(got) > 0 && len(got) <= 60 {
			crossCheck(sm, got, st)
		}
		held = append(held, heldMap{sm: sm, version: sm.Version, mappings: sm.Mappings, names: append([]string(nil), sm.Names...), at: len(ops)})
	}
	for i := 0; i < nOps && len(viol) == 0; i++ {
		k := ch.Weighted(5, 4, 4, 5, 2, 2)
		switch k {
		case 0: // AddMapping
			l, c := srcPos(ch, prevLine), srcPos(ch, prevCol)
			if l < prevLine {
				st.Inc("probe.negative_source_line_delta")
			}
			if c-prevCol >= 512 || prevCol-c >= 512 {
				st.Inc("probe.vlq_3plus_digits")
			}
			prevLine, prevCol = l, c
			ops = append(ops, Op{Kind: "AddMapping", A: l, B: c})
			if cw != nil {
				cw.AddMapping(token.Position{Line: l, Column: c})
			} else {
				real.AddMapping(l, c)
			}
			noteShape(m, st, false, 0)
			m.segs = append(m.segs, Seg{GenLine: m.line, GenCol: m.col, SrcLine: l, SrcCol: c})
		case 1: // AddNamedMapping
			l, c := srcPos(ch, prevLine), srcPos(ch, prevCol)
			var name string
			if ch.Bool(1, 5) {
				name = fmt.Sprintf("n%d", ch.Choose(1000))
			} else {
				name = namePool[ch.Choose(len(namePool))]
			}
			if l < prevLine {
				st.Inc("probe.negative_source_line_delta")
			}
			prevLine, prevCol = l, c
			ops = append(ops, Op{Kind: "AddNamedMapping", A: l, B: c, S: name})
			if cw != nil {
				cw.AddNamedMapping(l, c, name)
			} else {
				real.AddNamedMapping(l, c, name)
			}
			idx, ok := m.nameIdx[name]
			if !ok {
				idx = len(m.names)
				m.names = append(m.names, name)
				m.nameIdx[name] = idx
			} else {
				st.Inc("probe.name_repeated")
			}
			noteShape(m, st, true, idx)
			m.segs = append(m.segs, Seg{GenLine: m.line, GenCol: m.col, SrcLine: l, SrcCol: c, HasName: true, Name: idx})
		case 2: // AdvanceColumn
			n := ch.Choose(12)
			if ch.Bool(1, 12) {
				n = ch.Choose(1 << 20)
			}
			if cw != nil {
				n %= 200 // columns are advanced by writing that many bytes
			}
			ops = append(ops, Op{Kind: "AdvanceColumn", A: n})
			if cw != nil {
				x := strings.Repeat("x", n)
				cw.WriteString(x)
				written.WriteString(x)
			} else {
				real.AdvanceColumn(n)
			}
			m.col += n
			lastEndedCR = false
		case 3: // AdvanceString
			var sb strings.Builder
			for j, np := 0, 1+ch.Choose(4); j < np; j++ {
				sb.WriteString(strPieces[ch.Choose(len(strPieces))])
			}
			s := sb.String()
			// a string ending in \r followed by one starting with \n is unspecified across calls: avoid
			if lastEndedCR && strings.HasPrefix(s, "\n") {
				s = "a" + s
			}
			ops = append(ops, Op{Kind: "AdvanceString", S: s})
			if cw != nil {
				cw.WriteString(s)
				written.WriteString(s)
			} else {
				real.AdvanceString(s)
			}
			m.advanceString(s)
			lastEndedCR = strings.HasSuffix(s, "\r")
			if strings.Contains(s, "\r\n") {
				st.Inc("fault.crlf_in_string")
			}
			if strings.Contains(strings.ReplaceAll(s, "\r\n", ""), "\r") {
				st.Inc("fault.lone_cr_in_string")
			}
			for j := 0; j < len(s); j++ {
				if s[j] >= 0x80 {
					st.Inc("probe.multibyte_in_string")
					break
				}
			}
		case 4: // AdvanceLine
			ops = append(ops, Op{Kind: "AdvanceLine"})
			if cw != nil {
				if ch.Bool(1, 3) {
					// a Windows line end written rune by rune is one line break
					cw.WriteRune('\r')
					written.WriteByte('\r')
					st.Inc("fault.crlf_written_as_two_runes")
				}
				cw.WriteRune('\n')
				written.WriteByte('\n')
			} else {
				real.AdvanceLine()
			}
			m.line++
			m.col = 0
			lastEndedCR = false
		case 5: // snapshot read in the middle of the history
			ops = append(ops, Op{Kind: "SourceMap"})
			check(false)
			if snapshots >= 2 {
				st.Inc("probe.snapshot_taken_twice")
			}
		}
		fp = kernel.Mix(fp, kernel.Hash64(ops[len(ops)-1].Kind)+uint64(ops[len(ops)-1].A)*31+uint64(ops[len(ops)-1].B)*131+kernel.Hash64(ops[len(ops)-1].S))
	}
	if len(viol) == 0 {
		ops = append(ops, Op{Kind: "SourceMap"})
		check(true)
	}
	if cw != nil && len(viol) == 0 && cw.String() != written.String() {
		report("client", "code-writer-text", fmt.Sprintf("the code writer holds %q after writing %q", cw.String(), written.String()))
	}
	if len(viol) == 0 && ch.Bool(1, 4) {
		// a second read must agree with the first (snapshots do not disturb the mapper)
		check(false)
		st.Inc("probe.snapshot_taken_twice")
	}
	if len(viol) == 0 {
		for _, h := range held {
			if d := h.changed(); d != "" {
				report("snapshot", "held-map-changed", fmt.Sprintf("the map returned by SourceMap() after %d operations was verified then and reads differently after %d operations: %s", h.at, len(ops), d))
				break
			}
		}
		if len(held) >= 3 {
			st.Inc("probe.three_held_maps_reread_at_end")
		}
	}
	res := kernel.RunResult{Violations: viol, Fingerprint: fp, Nontrivial: len(m.segs) >= 2, Steps: int64(len(ops)), Evals: 1}
	if len(ops) <= 14 {
		res.Sample = map[string]any{"history": ops}
	}
	return res
}

type heldMap struct {
	sm       *sourcemap.SourceMap
	version  int
	mappings string
	names    []string
	at       int
}

func (h heldMap) changed() string {
	switch {
	case h.sm.Version != h.version:
		return fmt.Sprintf("version %d -> %d", h.version, h.sm.Version)
	case h.sm.Mappings != h.mappings:
		return fmt.Sprintf("mappings %q -> %q", h.mappings, h.sm.Mappings)
	case fmt.Sprintf("%q", h.sm.Names) != fmt.Sprintf("%q", h.names):
		return fmt.Sprintf("names %q -> %q", h.names, h.sm.Names)
	}
	return ""
}

// noteShape counts the rare shapes the property text singles out.
func noteShape(m *model, st *kernel.Stats, named bool, idx int) {
	n := len(m.segs)
	if n == 0 {
		if m.line >= 2 {
			st.Inc("probe.segment_after_2_empty_lines")
		}
		return
	}
	last := m.segs[n-1]
	if m.line >= last.GenLine+3 {
		st.Inc("probe.segment_after_2_empty_lines")
	}
	if m.line > last.GenLine {
		st.Inc("probe.segment_on_new_line")
	} else {
		st.Inc("probe.second_segment_same_line")
	}
	if named {
		// previous named segment (skipping unnamed ones)
		for j := n - 1; j >= 0; j-- {
			if m.segs[j].HasName {
				if j < n-1 {
					st.Inc("probe.unnamed_between_named")
				}
				if idx < m.segs[j].Name {
					st.Inc("probe.name_index_decreasing")
				}
				break
			}
		}
	}
}

func crossCheck(sm *sourcemap.SourceMap, segs []Seg, st *kernel.Stats) {
	for _, s := range segs {
		if s.SrcLine < 0 || s.SrcCol < 0 || s.SrcLine > 1<<29 || s.SrcCol > 1<<29 {
			return
		}
		if s.SrcLine == 0 && s.SrcCol == 0 {
			return // go-sourcemap drops segments pointing at source 1:0 (its own quirk)
		}
	}
	doc := map[string]any{"version": 3, "sources": []string{"in.js"}, "names": sm.Names, "mappings": sm.Mappings}
	if sm.Names == nil {
		doc["names"] = []string{}
	}
	b, _ := json.Marshal(doc)
	c, err := gsm.Parse("", b)
	if err != nil {
		st.Inc("oracle.gosourcemap_parse_error")
		return
	}
	st.Inc("oracle.gosourcemap_crosschecked")
	for _, s := range segs {
		_, _, line, col, ok := c.Source(s.GenLine+1, s.GenCol)
		if !ok {
			st.Inc("oracle.gosourcemap_disagrees_with_harness_decoder")
			return
		}
		// several segments may share a generated position; accept any of them
		match := false
		for _, t := range segs {
			if t.GenLine == s.GenLine && t.GenCol == s.GenCol && t.SrcLine+1 == line && t.SrcCol == col {
				match = true
			}
		}
		if !match {
			st.Inc("oracle.gosourcemap_disagrees_with_harness_decoder")
			return
		}
	}
}

// Sweep is the plain integer enumeration riding along (supervisor side, one
// process): every integer in [-2^20, 2^20] plus seeded magnitudes up to 2^31 is
// pushed through the public API as a source-column delta and decoded back.
func Sweep(ctx *kernel.BatchContext) []kernel.Violation {
	var out []kernel.Violation
	bad := func(v int, detail string) {
		if len(out) < 1 {
			out = append(out, kernel.Violation{Property: "C09", Kind: "vlq-sweep", Signature: "vlq-sweep",
				Detail: fmt.Sprintf("integer %d as a source-column delta: %s", v, detail)})
		}
	}
	const block = 4096
	count := int64(0)
	checkBlock := func(vals []int) {
		defer func() {
			// a panic of the mapper is the mapper's failure to produce a map for these values, not harness trouble
			if r := recover(); r != nil && len(vals) > 0 {
				bad(vals[0], fmt.Sprintf("the mapper panicked on the block starting here: %v", r))
			}
		}()
		m := sourcemap.New()
		// absolute columns: 0, v1, 0, v2, 0 ... => deltas +v1, -v1, +v2, -v2 ...; each on its own generated column
		m.AddMapping(0, 0)
		for _, v := range vals {
			m.AdvanceColumn(1)
			m.AddMapping(0, v)
			m.AdvanceColumn(1)
			m.AddMapping(0, 0)
		}
		sm := m.SourceMap()
		segs, err := Decode(sm.Mappings)
		if err != nil {
			bad(vals[0], "block starting here does not decode: "+err.Error())
			return
		}
		if len(segs) != 1+2*len(vals) {
			bad(vals[0], fmt.Sprintf("block decodes to %d segments, want %d", len(segs), 1+2*len(vals)))
			return
		}
		for i, v := range vals {
			a, b := segs[1+2*i], segs[2+2*i]
			if a.SrcCol != v || b.SrcCol != 0 || a.SrcLine != 0 || a.GenCol != 1+2*i || b.GenCol != 2+2*i {
				bad(v, fmt.Sprintf("decoded source columns %d then %d, want %d then 0", a.SrcCol, b.SrcCol, v))
				return
			}
		}
		count += int64(2 * len(vals))
	}
	vals := make([]int, 0, block)
	for v := -(1 << 20); v <= 1<<20; v++ {
		vals = append(vals, v)
		if len(vals) == block {
			checkBlock(vals)
			vals = vals[:0]
		}
	}
	if len(vals) > 0 {
		checkBlock(vals)
		vals = vals[:0]
	}
	// sampled magnitudes up to 2^31 (seeded), plus all powers of two +-1
	rng := kernel.NewRNG(uint64(ctx.Seed)*0x9E3779B97F4A7C15 + 77)
	n := 200000
	if ctx.Tier == "thorough" {
		n = 5000000
	}
	for i := 0; i < n; i++ {
		bits := 21 + int(rng.Next()%11) // 21..31
		v := int(rng.Next() % (uint64(1) << uint(bits)))
		if rng.Next()&1 == 1 {
			v = -v
		}
		vals = append(vals, v)
		if len(vals) == block {
			checkBlock(vals)
			vals = vals[:0]
		}
	}
	for b := 0; b <= 31; b++ {
		for d := -1; d <= 1; d++ {
			vals = append(vals, (1<<uint(b))+d, -((1 << uint(b)) + d))
		}
	}
	checkBlock(vals)
	ctx.ExtraInfo["vlq_sweep"] = map[string]any{
		"exhaustive_range":    "[-2^20, 2^20] (each value as +delta and -delta through the public API)",
		"sampled_to_2^31":     n,
		"deltas_roundtripped": count,
		"note":                "plain enumeration riding in the same engine; exhaustive for this sub-space only",
	}
	return out
}

func init() {
	kernel.Register(&kernel.EngineInfo{
		Name:       "mapsim",
		Properties: []string{"C09"},
		Level:      "exploration",
		New:        New,
		Tier: func(prop, tier string) kernel.TierSpec {
			if tier == "thorough" {
				return kernel.TierSpec{Runs: 40_000_000, WallSeconds: 900, ShrinkSecs: 120, RunBudgetMs: 20000}
			}
			return kernel.TierSpec{Runs: 1_000_000, WallSeconds: 40, ShrinkSecs: 20, RunBudgetMs: 10000}
		},
		Rule:      "each run = one seeded operation history (<=200 ops over AddMapping/AddNamedMapping/AdvanceColumn/AdvanceString/AdvanceLine/SourceMap-snapshot) on one real SourceMapper, checked at every snapshot against a reference model through an independent v3 decoder; distinct = distinct hash of the operation sequence with arguments; non-trivial = at least 2 recorded mappings",
		Real:      []string{"sourcemap.SourceMapper (all methods)", "sourcemap VLQ encoder (through SourceMap())"},
		Simulated: []string{"the client (code writer role): seeded operation histories"},
		Oracles:   []string{"harness reference model (absolute positions, first-seen name table)", "harness Source Map v3 decoder", "github.com/go-sourcemap/sourcemap as a cross-check of the harness decoder only"},
		Assume: []string{
			"reduced form of the technique: one simulated client, a stateful object, no scheduler, no crash (a SourceMapper has nothing to crash)",
			"columns are counted in bytes of the advanced string (as the implementation and its tests do); the property does not fix the unit",
			"a string ending in \\r is never followed by a string starting with \\n (line breaks are defined within one string)",
			"sampling, not proof: a clean batch means no counterexample among the histories run",
		},
		RequiredProbes: map[string][]string{"C09": {
			"probe.segment_after_2_empty_lines", "probe.unnamed_between_named", "probe.name_index_decreasing",
			"probe.negative_source_line_delta", "probe.vlq_3plus_digits", "probe.snapshot_taken_twice",
			"fault.crlf_in_string", "fault.lone_cr_in_string", "probe.name_repeated",
		}},
		PostBatch: Sweep,
	})
}
