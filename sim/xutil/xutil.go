// Package xutil holds harness-side helpers around the real xjs packages:
// canonical dumps, guarded parse/compile calls, compiler configurations.
package xutil

import (
	"fmt"
	"reflect"
	"runtime/debug"
	"sort"
	"strconv"
	"strings"

	"github.com/xjslang/xjs/ast"
	"github.com/xjslang/xjs/compiler"
	"github.com/xjslang/xjs/lexer"
	"github.com/xjslang/xjs/parser"
	"github.com/xjslang/xjs/token"
)

// TokString renders every field of a token.
func TokString(t token.Token) string {
	var sb strings.Builder
	fmt.Fprintf(&sb, "%d:%q@%d:%d-%d:%d", int(t.Type), t.Literal, t.Start.Line, t.Start.Column, t.End.Line, t.End.Column)
	if t.AfterNewline {
		sb.WriteString(" nl")
	}
	if t.LeadingComments != nil {
		fmt.Fprintf(&sb, " c=%q", t.LeadingComments)
	}
	return sb.String()
}

// LexAll pulls tokens from a plain lexer (built by lb) up to and including the first EOF.
// max bounds the number of pulls (a lexer that never reports EOF is cut off).
func LexAll(lb *lexer.Builder, src string, max int) (toks []token.Token, panicked any) {
	defer func() {
		if r := recover(); r != nil {
			panicked = r
		}
	}()
	l := lb.Build(src)
	for i := 0; i < max; i++ {
		t := l.NextToken()
		toks = append(toks, t)
		if t.Type == token.EOF {
			break
		}
	}
	return toks, nil
}

var tokenType = reflect.TypeOf(token.Token{})

// Dump renders a tree canonically: node types, all exported fields, tokens with
// positions and comments; no pointer addresses. Typed nil pointers are visible.
func Dump(v any) string {
	var sb strings.Builder
	dumpValue(&sb, reflect.ValueOf(v), 0)
	return sb.String()
}

func dumpValue(sb *strings.Builder, v reflect.Value, depth int) {
	if depth > 400 {
		sb.WriteString("<too deep>")
		return
	}
	if !v.IsValid() {
		sb.WriteString("nil")
		return
	}
	switch v.Kind() {
	case reflect.Interface:
		if v.IsNil() {
			sb.WriteString("nil")
			return
		}
		dumpValue(sb, v.Elem(), depth)
	case reflect.Ptr:
		if v.IsNil() {
			sb.WriteString("<nil " + v.Type().String() + ">")
			return
		}
		dumpValue(sb, v.Elem(), depth)
	case reflect.Struct:
		if v.Type() == tokenType {
			sb.WriteString("T(" + TokString(v.Interface().(token.Token)) + ")")
			return
		}
		sb.WriteString(v.Type().String())
		sb.WriteString("{")
		t := v.Type()
		first := true
		for i := 0; i < v.NumField(); i++ {
			f := t.Field(i)
			if !f.IsExported() {
				continue
			}
			if !first {
				sb.WriteString(" ")
			}
			first = false
			sb.WriteString(f.Name)
			sb.WriteString("=")
			dumpValue(sb, v.Field(i), depth+1)
		}
		sb.WriteString("}")
	case reflect.Slice:
		if v.IsNil() {
			sb.WriteString("nil[]")
			return
		}
		sb.WriteString("[")
		for i := 0; i < v.Len(); i++ {
			if i > 0 {
				sb.WriteString(", ")
			}
			dumpValue(sb, v.Index(i), depth+1)
		}
		sb.WriteString("]")
	case reflect.String:
		sb.WriteString(strconv.Quote(v.String()))
	case reflect.Bool:
		sb.WriteString(strconv.FormatBool(v.Bool()))
	case reflect.Int, reflect.Int8, reflect.Int16, reflect.Int32, reflect.Int64:
		sb.WriteString(strconv.FormatInt(v.Int(), 10))
	case reflect.Func:
		if v.IsNil() {
			sb.WriteString("nilfunc")
		} else {
			sb.WriteString("func")
		}
	case reflect.Map:
		keys := v.MapKeys()
		strs := make([]string, 0, len(keys))
		for _, k := range keys {
			var kb strings.Builder
			dumpValue(&kb, k, depth+1)
			kb.WriteString(":")
			dumpValue(&kb, v.MapIndex(k), depth+1)
			strs = append(strs, kb.String())
		}
		sort.Strings(strs)
		sb.WriteString("map{" + strings.Join(strs, ", ") + "}")
	default:
		fmt.Fprintf(sb, "%v", v.Interface())
	}
}

// ErrorsString renders the error list canonically.
func ErrorsString(errs []parser.ParserError) string {
	var sb strings.Builder
	for _, e := range errs {
		fmt.Fprintf(&sb, "%s@%d:%d-%d:%d[%s];", e.Message, e.Range.Start.Line, e.Range.Start.Column, e.Range.End.Line, e.Range.End.Column, e.Code)
	}
	return sb.String()
}

// ParseOutcome is the guarded result of Build+ParseProgram.
type ParseOutcome struct {
	Parser  *parser.Parser
	Program *ast.Program
	Err     error
	Errors  []parser.ParserError
	Panic   any
	Stack   string
}

// Modes
type Mode struct{ Tolerant, Smart bool }

var AllModes = []Mode{{false, false}, {true, false}, {false, true}, {true, true}}

func (m Mode) String() string {
	s := "strict"
	if m.Tolerant {
		s = "tolerant"
	}
	if m.Smart {
		s += "+smart"
	}
	return s
}

// ReadErrorsFirst: Parse reads Errors() once between Build and ParseProgram (set per run by single-task engines).
var ReadErrorsFirst bool

// HostDriven: Parse does not call ParseProgram but loops over ParseStatement()/NextToken() itself.
var HostDriven bool

// AfterBuild, when set, runs between Build and ParseProgram (single-task engines only).
var AfterBuild func()

// Parse builds a parser from pb for src and parses, recovering panics.
func Parse(pb *parser.Builder, src string) (out ParseOutcome) {
	defer func() {
		if r := recover(); r != nil {
			out.Panic = r
			out.Stack = string(debug.Stack())
		}
	}()
	p := pb.Build(src)
	out.Parser = p
	if AfterBuild != nil {
		AfterBuild()
	}
	if ReadErrorsFirst {
		_ = p.Errors() // a host that looks at the (still empty) error list of the fresh parser before parsing
	}
	if HostDriven {
		// the host drives the parser itself, statement by statement, through the public API (what ParseProgram's
		// documentation says it does): ParseStatement(), NextToken(), until end of input
		prog := &ast.Program{Statements: []ast.Statement{}}
		for n := 0; p.CurrentToken.Type != token.EOF; n++ {
			if n > 4*len(src)+64 {
				panic("host-driven loop makes no progress")
			}
			if st := p.ParseStatement(); st != nil && !IsNilValue(st) {
				prog.Statements = append(prog.Statements, st)
			}
			p.NextToken()
		}
		out.Program, out.Errors = prog, p.Errors()
		if len(out.Errors) > 0 {
			out.Err = fmt.Errorf("host-driven parse: %d errors", len(out.Errors))
		}
		return out
	}
	prog, err := p.ParseProgram()
	out.Program, out.Err = prog, err
	out.Errors = p.Errors()
	return out
}

func PlainBuilder(m Mode) *parser.Builder {
	return parser.NewBuilder(lexer.NewBuilder()).WithTolerantMode(m.Tolerant).WithSmartSemicolon(m.Smart)
}

// CompilerConfig names one compiler configuration.
type CompilerConfig struct {
	Pretty    bool
	Indent    int // -1 tab, 0..8 spaces
	Semi      bool
	SourceMap bool
}

func (c CompilerConfig) String() string {
	if !c.Pretty {
		if c.SourceMap {
			return "compact+map"
		}
		return "compact"
	}
	ind := "tab"
	if c.Indent >= 0 {
		ind = fmt.Sprintf("sp%d", c.Indent)
	}
	s := fmt.Sprintf("pretty(%s,semi=%v)", ind, c.Semi)
	if c.SourceMap {
		s += "+map"
	}
	return s
}

func (c CompilerConfig) New() *compiler.Compiler {
	return c.ApplyTo(compiler.New())
}

// ApplyTo configures an existing compiler (possibly configured differently before).
func (c CompilerConfig) ApplyTo(cc *compiler.Compiler) *compiler.Compiler {
	if c.Pretty {
		var opts []compiler.PrettyPrintOption
		if c.Indent < 0 {
			opts = append(opts, compiler.WithTabs())
		} else {
			opts = append(opts, compiler.WithSpaces(c.Indent))
		}
		opts = append(opts, compiler.WithSemi(c.Semi))
		cc = cc.WithPrettyPrint(opts...)
	}
	if c.SourceMap {
		cc = cc.WithSourceMap()
	}
	return cc
}

// AllConfigs: compact; pretty x {tab, 0..8 spaces} x {semi on, off}; each +- source map.
func AllConfigs() []CompilerConfig {
	var out []CompilerConfig
	for _, sm := range []bool{false, true} {
		out = append(out, CompilerConfig{SourceMap: sm})
		for ind := -1; ind <= 8; ind++ {
			for _, semi := range []bool{true, false} {
				out = append(out, CompilerConfig{Pretty: true, Indent: ind, Semi: semi, SourceMap: sm})
			}
		}
	}
	return out
}

// Compile runs one configuration, recovering panics.
func Compile(c CompilerConfig, prog *ast.Program) (res compiler.CompileResult, panicked any, stack string) {
	defer func() {
		if r := recover(); r != nil {
			panicked = r
			stack = string(debug.Stack())
		}
	}()
	res = c.New().Compile(prog)
	return
}

// PosLess compares positions.
func PosLess(a, b token.Position) bool {
	if a.Line != b.Line {
		return a.Line < b.Line
	}
	return a.Column < b.Column
}

// TopFrames extracts the first frames of a stack that are inside xjs (for signatures).
func TopFrames(stack string, n int) string {
	var out []string
	for _, ln := range strings.Split(stack, "\n") {
		ln = strings.TrimSpace(ln)
		if strings.HasPrefix(ln, "github.com/xjslang/xjs/") {
			f := strings.TrimPrefix(ln, "github.com/xjslang/xjs/")
			if i := strings.LastIndex(f, "("); i > 0 {
				f = f[:i]
			}
			out = append(out, f)
			if len(out) >= n {
				break
			}
		}
	}
	return strings.Join(out, "<")
}

// LexAllToEnd pulls tokens from a plain lexer until end-of-input is reported at
// (or after) the real end of the text: an embedded NUL byte makes the lexer
// report an early end-of-input token and carry on, and those later tokens are
// tokens of the input too.
func LexAllToEnd(lb *lexer.Builder, src string) (toks []token.Token, panicked any) {
	defer func() {
		if r := recover(); r != nil {
			panicked = r
		}
	}()
	end := token.Position{}
	for i := 0; i < len(src); i++ {
		if src[i] == '\n' {
			end.Line++
			end.Column = 0
		} else {
			end.Column++
		}
	}
	l := lb.Build(src)
	for i := 0; i < 2*len(src)+8; i++ {
		t := l.NextToken()
		toks = append(toks, t)
		if t.Type == token.EOF && !PosLess(t.Start, end) {
			break
		}
	}
	return toks, nil
}

// WalkNodesStop is WalkNodes with pruning: fn returns false to skip the node's children.
func WalkNodesStop(v any, fn func(n any) bool) {
	walkNodesStop(reflect.ValueOf(v), fn, 0)
}

func walkNodesStop(v reflect.Value, fn func(n any) bool, depth int) {
	if !v.IsValid() || depth > 3000 {
		return
	}
	switch v.Kind() {
	case reflect.Interface:
		if !v.IsNil() {
			walkNodesStop(v.Elem(), fn, depth+1)
		}
	case reflect.Ptr:
		if v.IsNil() {
			return
		}
		if v.Elem().Kind() == reflect.Struct {
			if v.CanInterface() && !fn(v.Interface()) {
				return
			}
			walkNodesStop(v.Elem(), fn, depth+1)
		}
	case reflect.Struct:
		if v.Type() == tokenType {
			return
		}
		for i := 0; i < v.NumField(); i++ {
			if v.Type().Field(i).IsExported() {
				walkNodesStop(v.Field(i), fn, depth+1)
			}
		}
	case reflect.Slice:
		for i := 0; i < v.Len(); i++ {
			walkNodesStop(v.Index(i), fn, depth+1)
		}
	}
}

// WalkNodes calls fn for every non-nil pointer-to-struct reachable from v
// (ast nodes and harness nodes alike), pre-order, in field order.
func WalkNodes(v any, fn func(n any)) {
	walkNodes(reflect.ValueOf(v), fn, 0)
}

func walkNodes(v reflect.Value, fn func(n any), depth int) {
	if !v.IsValid() || depth > 3000 {
		return
	}
	switch v.Kind() {
	case reflect.Interface:
		if !v.IsNil() {
			walkNodes(v.Elem(), fn, depth+1)
		}
	case reflect.Ptr:
		if v.IsNil() {
			return
		}
		if v.Elem().Kind() == reflect.Struct {
			if v.CanInterface() {
				fn(v.Interface())
			}
			walkNodes(v.Elem(), fn, depth+1)
		}
	case reflect.Struct:
		if v.Type() == tokenType {
			return
		}
		for i := 0; i < v.NumField(); i++ {
			if v.Type().Field(i).IsExported() {
				walkNodes(v.Field(i), fn, depth+1)
			}
		}
	case reflect.Slice:
		for i := 0; i < v.Len(); i++ {
			walkNodes(v.Index(i), fn, depth+1)
		}
	}
}

// IsNilValue reports whether an interface holds a nil pointer/slice/map/func (typed nil).
func IsNilValue(n any) bool {
	if n == nil {
		return true
	}
	v := reflect.ValueOf(n)
	switch v.Kind() {
	case reflect.Ptr, reflect.Slice, reflect.Map, reflect.Func, reflect.Interface:
		return v.IsNil()
	}
	return false
}

// LeftmostExprToken: the first source token of an expression node (false for plugin node types).
func LeftmostExprToken(e ast.Expression) (token.Token, bool) {
	for depth := 0; depth < 10000; depth++ {
		switch x := e.(type) {
		case *ast.Identifier:
			return x.Token, true
		case *ast.IntegerLiteral:
			return x.Token, true
		case *ast.FloatLiteral:
			return x.Token, true
		case *ast.StringLiteral:
			return x.Token, true
		case *ast.MultiStringLiteral:
			return x.Token, true
		case *ast.BooleanLiteral:
			return x.Token, true
		case *ast.NullLiteral:
			return x.Token, true
		case *ast.LetExpression:
			return x.Token, true
		case *ast.UnaryExpression:
			return x.Token, true
		case *ast.GroupedExpression:
			return x.Token, true
		case *ast.FunctionExpression:
			return x.Token, true
		case *ast.ArrayLiteral:
			return x.Token, true
		case *ast.ObjectLiteral:
			return x.Token, true
		case *ast.BinaryExpression:
			e = x.Left
		case *ast.PostfixExpression:
			e = x.Left
		case *ast.CallExpression:
			e = x.Function
		case *ast.MemberExpression:
			e = x.Object
		case *ast.AssignmentExpression:
			e = x.Left
		case *ast.CompoundAssignmentExpression:
			e = x.Left
		default:
			return token.Token{}, false
		}
		if e == nil {
			return token.Token{}, false
		}
	}
	return token.Token{}, false
}
