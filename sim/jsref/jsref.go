// Package jsref wraps the two reference JavaScript parsers used only to decide
// C12's precondition ("the corrupted text is no longer valid JavaScript"):
// goja's parser in-process and node's vm.Script in a long-lived child process.
package jsref

import (
	"bufio"
	_ "embed"
	"encoding/json"
	"fmt"
	"io"
	"os"
	"os/exec"
	"strings"

	gp "github.com/dop251/goja/parser"
)

// GojaRejects reports whether goja's parser rejects src (panics count as rejection of nothing: reported separately).
func GojaRejects(src string) (rejects bool, err error) {
	defer func() {
		if r := recover(); r != nil {
			err = fmt.Errorf("goja panicked: %v", r)
		}
	}()
	_, perr := gp.ParseFile(nil, "", src, 0)
	return perr != nil, nil
}

const nodeScript = `
const vm = require('vm');
const rl = require('readline').createInterface({input: process.stdin, terminal: false});
rl.on('line', (line) => {
  let src;
  try { src = JSON.parse(line); } catch (e) { process.stdout.write('E\n'); return; }
  try { new vm.Script(src); process.stdout.write('A\n'); } catch (e) { process.stdout.write(e instanceof SyntaxError ? 'R\n' : 'X\n'); }
});
`

type Node struct {
	cmd *exec.Cmd
	in  io.WriteCloser
	out *bufio.Reader
}

func FindNode() string {
	cands := []string{}
	if p, err := exec.LookPath("node"); err == nil {
		cands = append(cands, p)
	}
	cands = append(cands, "/usr/bin/node", "/usr/bin/nodejs", "/root/.nvm/versions/node/v20.20.2/bin/node", "/root/.nvm/versions/node/v22.22.2/bin/node", "/root/.nvm/versions/node/v18.20.8/bin/node")
	for _, c := range cands {
		if st, err := os.Stat(c); err == nil && !st.IsDir() {
			return c
		}
	}
	return ""
}

// StartNode launches the reference process; nil,nil when node is not installed.
func StartNode() (*Node, error) {
	path := FindNode()
	if path == "" {
		return nil, nil
	}
	cmd := exec.Command(path, "-e", nodeScript)
	in, err := cmd.StdinPipe()
	if err != nil {
		return nil, err
	}
	out, err := cmd.StdoutPipe()
	if err != nil {
		return nil, err
	}
	cmd.Stderr = nil
	if err := cmd.Start(); err != nil {
		return nil, err
	}
	n := &Node{cmd: cmd, in: in, out: bufio.NewReader(out)}
	// handshake
	rej, err := n.Rejects("let x = ;")
	if err != nil || !rej {
		n.Close()
		return nil, fmt.Errorf("node reference parser handshake failed: rej=%v err=%v", rej, err)
	}
	acc, err := n.Rejects("let x = 1;")
	if err != nil || acc {
		n.Close()
		return nil, fmt.Errorf("node reference parser handshake failed (valid program rejected): %v", err)
	}
	return n, nil
}

// Rejects asks node whether src fails to parse as a script.
func (n *Node) Rejects(src string) (bool, error) {
	b, _ := json.Marshal(src)
	if _, err := n.in.Write(append(b, '\n')); err != nil {
		return false, err
	}
	line, err := n.out.ReadString('\n')
	if err != nil {
		return false, err
	}
	switch strings.TrimSpace(line) {
	case "A":
		return false, nil
	case "R":
		return true, nil
	}
	return false, fmt.Errorf("node reference parser answered %q", line)
}

func (n *Node) Close() {
	if n == nil {
		return
	}
	n.in.Close()
	n.cmd.Process.Kill()
	n.cmd.Wait()
}
